"""Environment stubs for engine-level harnesses (DESIGN.md 1.3, 1.5, B.2).

FakeSession renders the three SQLAlchemy query shapes the engine uses; everything else
(the handlers, access control, attribute policy, pie objects) is the real code.
"""
import copy
import types

try:
    from crosshair.tracers import NoTracing
except Exception:  # pragma: no cover
    import contextlib
    NoTracing = contextlib.nullcontext

from kv import rt  # noqa: F401

import sqlalchemy.orm.exc as sa_exc

from kmip.core import enums
from kmip.core.messages import contents
from kmip.pie import objects as pobjects
from kmip.services.server import engine as engine_mod
from kmip.services.server import policy as spolicy
from kmip.core import policy as cpolicy


class NullLogger(object):
    def __init__(self):
        self.records = []

    def _rec(self, level, msg):
        self.records.append((level, msg))

    def debug(self, msg, *a, **k):
        pass

    def info(self, msg, *a, **k):
        self._rec("INFO", msg)

    def warning(self, msg, *a, **k):
        self._rec("WARNING", msg)

    def error(self, msg, *a, **k):
        self._rec("ERROR", msg)

    def exception(self, msg, *a, **k):
        self._rec("ERROR", msg)

    def critical(self, msg, *a, **k):
        self._rec("CRITICAL", msg)


class FakeTime(object):
    """Stand-in for the ``time`` module inside a module under test (clock pinned)."""

    def __init__(self, now=1500000000):
        self.now = now

    def time(self):
        return self.now

    def gmtime(self, t=None):
        # like the C library: a time_t whose year does not fit struct tm is refused
        if t is not None and not (-67768040609740800 <= t <= 67768036191676799):
            raise OverflowError("timestamp out of range for platform time_t")
        return (2017, 7, 14, 2, 40, 0, 4, 195, 0)

    def strftime(self, fmt, t=None):
        return "2017-07-14 02:40:00"

    def asctime(self, t=None):
        return "Fri Jul 14 02:40:00 2017"

    def sleep(self, s):
        pass


class StubLimitation(BaseException):
    """The code under test used the store in a way FakeSession does not model.  Deliberately not an
    Exception: it must never be mistaken for behaviour of the code under test (the worker reports
    it as a machinery error, exit 3, never as a verdict)."""


def _rows_of(session, ent):
    """All persistent instances of mapped class ``ent`` reachable from the session's objects."""
    out = []
    for o in session.objs:
        if isinstance(o, ent):
            out.append(o)
    if out or issubclass(ent, pobjects.ManagedObject):
        return out
    for o in session.objs:
        for rel in ("object_groups", "app_specific_info", "_names"):
            for r in list(getattr(o, rel, []) or []):
                if isinstance(r, ent) and not any(r is x for x in out):
                    out.append(r)
    return out


class FakeQuery(object):
    def __init__(self, session, entity):
        self.s = session
        self.ent = entity
        self.uid = None
        self.filtered = False
        self.key = None

    def filter(self, expr):
        # `column == None` renders as `uid IS NULL` (right side is a Null() element): matches no row
        if self.filtered:
            raise StubLimitation("FakeQuery: more than one filter()")
        try:
            self.key = expr.left.key
        except Exception:
            raise StubLimitation("FakeQuery.filter: unsupported expression %r" % (expr,))
        self.uid = getattr(expr.right, "value", None)
        self.filtered = True
        return self

    def _match(self):
        ent = self.ent if isinstance(self.ent, type) else pobjects.ManagedObject
        if not self.filtered:
            return _rows_of(self.s, ent)
        if self.uid is None:
            return []
        if self.key in ("uid", "unique_identifier"):
            # SQLite INTEGER-affinity comparison of the key with a text identifier
            return [o for o in _rows_of(self.s, ent) if str(o.unique_identifier) == str(self.uid)]
        attr = self.key
        out = []
        for r in _rows_of(self.s, ent):
            if not hasattr(r, attr) and hasattr(r, attr.lstrip("_")):
                attr = attr.lstrip("_")
            if not hasattr(r, attr):
                raise StubLimitation("FakeQuery: %s has no column %s" % (type(r).__name__, self.key))
            if getattr(r, attr) == self.uid:
                out.append(r)
        return out

    def one(self):
        m = self._match()
        if len(m) == 0:
            raise sa_exc.NoResultFound()
        if len(m) > 1:
            raise sa_exc.MultipleResultsFound()
        if isinstance(self.ent, type):
            return m[0]
        return (m[0]._object_type,)          # column query -> row tuple

    def first(self):
        m = self._match()
        if not m:
            return None
        return m[0] if isinstance(self.ent, type) else (m[0]._object_type,)

    def all(self):
        return self._match()

    def count(self):
        return len(self._match())

    def delete(self):
        n = 0
        for o in self._match():
            self.s.log.append(("delete", o.unique_identifier))
            self.s.objs.remove(o)
            self.s.pending = True
            n += 1
        return n

    def __getattr__(self, name):
        raise StubLimitation("FakeQuery has no model of Query.%s" % name)


def _apply_column_defaults(o):
    """INSERT semantics of the ORM: a mapped attribute that is None and whose column has a
    scalar default is stored (and read back) as that default (e.g. operation_policy_name
    'default' for objects made by Create/Register)."""
    import sqlalchemy
    mapper = sqlalchemy.inspect(type(o))
    for attr in mapper.column_attrs:
        col = attr.columns[0]
        d = col.default
        if d is not None and getattr(d, "is_scalar", False):
            try:
                cur = getattr(o, attr.key)
            except Exception:
                continue
            if cur is None:
                setattr(o, attr.key, d.arg)


class FakeSession(object):
    """Also the context manager returned by ``_data_store_session_factory()``."""

    def __init__(self, objs=(), next_id=None):
        self.objs = list(objs)
        self.log = []
        self.pending = False
        ids = [o.unique_identifier for o in self.objs if isinstance(o.unique_identifier, int)]
        self.next_id = next_id if next_id is not None else (max(ids) + 1 if ids else 1)

    def __call__(self):
        return self

    def __enter__(self):
        return self

    def __exit__(self, *a):
        return False

    def query(self, ent):
        return FakeQuery(self, ent)

    def add(self, o):
        self.log.append(("add", type(o).__name__))
        self.objs.append(o)
        self.pending = True

    def commit(self):
        for o in self.objs:
            if o.unique_identifier is None:
                with NoTracing():
                    o.unique_identifier = self.next_id
                    self.next_id += 1
                    _apply_column_defaults(o)
        self.log.append(("commit", self.pending))
        self.pending = False

    def rollback(self):
        self.log.append(("rollback",))

    def close(self):
        pass

    def flush(self):
        pass

    def __getattr__(self, name):
        if name.startswith("__"):
            raise AttributeError(name)
        raise StubLimitation("FakeSession has no model of Session.%s" % name)


class TxSession(FakeSession):
    """FakeSession that remembers what was persisted: the state at the last commit is what a
    restart (or the end of the request's session) would see."""

    def __init__(self, objs=(), next_id=None):
        FakeSession.__init__(self, objs, next_id)
        self.initial = None
        self.committed = None
        self.state_commits = 0

    def state(self):
        return [snapshot(o) for o in self.objs]

    def watch(self):
        self.initial = self.state()
        self.committed = self.initial
        self.state_commits = 0

    def commit(self):
        FakeSession.commit(self)
        st = self.state()
        if st != self.committed:
            self.state_commits += 1
            self.committed = st


VERSIONS = [(1, 0), (1, 1), (1, 2), (1, 3), (1, 4), (2, 0)]
KMIP_VERSION = {
    (1, 0): enums.KMIPVersion.KMIP_1_0, (1, 1): enums.KMIPVersion.KMIP_1_1,
    (1, 2): enums.KMIPVersion.KMIP_1_2, (1, 3): enums.KMIPVersion.KMIP_1_3,
    (1, 4): enums.KMIPVersion.KMIP_1_4, (2, 0): enums.KMIPVersion.KMIP_2_0,
}

_TEMPLATE = None


def _template():
    """A real KmipEngine built once, outside tracing, on an in-memory SQLite database, so
    that whatever __init__ sets up in /repo's current tree is what harnesses get."""
    global _TEMPLATE
    if _TEMPLATE is None:
        _TEMPLATE = engine_mod.KmipEngine(policies=copy.deepcopy(cpolicy.policies), database_path=":memory:")
    return _TEMPLATE


def default_policies():
    return copy.deepcopy(cpolicy.policies)


def mk_engine(objs=(), policies=None, identity=("alice", None), version=(1, 2), now=1500000000,
              crypto=None, next_id=None, session_cls=None):
    """version must be concrete; everything symbolic is assigned under tracing."""
    with NoTracing():
        t = _template()
        e = copy.copy(t)
        e._logger = NullLogger()
        pv = contents.ProtocolVersion(version[0], version[1])
        e._protocol_version = pv
        e._attribute_policy = spolicy.AttributePolicy(pv)
        e._id_placeholder = None
        # the engine's own containers must not be shared with the template (an in-place mutation
        # by the code under test would otherwise leak into every later engine of this process)
        e._protocol_versions = list(t._protocol_versions)
        e._object_map = dict(t._object_map)
        if policies is None:
            policies = default_policies()
    s = (session_cls or FakeSession)(objs, next_id=next_id)
    e._data_store_session_factory = s
    e._data_session = s
    e._operation_policies = policies
    e._client_identity = list(identity)
    if crypto is not None:
        e._cryptography_engine = crypto
    engine_mod.time = FakeTime(now)
    engine_mod.copy = types.SimpleNamespace(deepcopy=pie_clone, copy=_real_copy.copy)
    return e, s


# ---- pie object builders ---------------------------------------------------------------

KINDS = ["SymmetricKey", "PublicKey", "PrivateKey", "SplitKey", "X509Certificate", "SecretData", "OpaqueObject"]
STATES4 = [enums.State.PRE_ACTIVE, enums.State.ACTIVE, enums.State.DEACTIVATED, enums.State.COMPROMISED]


def _mk_base(kind, value):
    A = enums.CryptographicAlgorithm
    if kind == "SymmetricKey":
        v = value if value is not None else b"\x01" * 16
        return pobjects.SymmetricKey(A.AES, len(v) * 8, v)
    if kind == "PublicKey":
        return pobjects.PublicKey(A.RSA, 1024, value if value is not None else b"\x30\x82\x01\x0a",
                                  enums.KeyFormatType.PKCS_1)
    if kind == "PrivateKey":
        return pobjects.PrivateKey(A.RSA, 1024, value if value is not None else b"\x30\x82\x02\x5c",
                                   enums.KeyFormatType.PKCS_8)
    if kind == "SplitKey":
        v = value if value is not None else b"\x02" * 16
        return pobjects.SplitKey(A.AES, len(v) * 8, v, split_key_parts=3, key_part_identifier=1,
                                 split_key_threshold=2, split_key_method=enums.SplitKeyMethod.XOR)
    if kind == "X509Certificate":
        return pobjects.X509Certificate(value if value is not None else b"\x30\x82\x03\x12")
    if kind == "SecretData":
        return pobjects.SecretData(value if value is not None else b"\x53\x65\x63\x72", enums.SecretDataType.PASSWORD)
    if kind == "OpaqueObject":
        return pobjects.OpaqueObject(value if value is not None else b"\x4f\x70\x61\x71", enums.OpaqueDataType.NONE)
    raise ValueError(kind)


def mk_obj(kind, uid=1, value=None, masks=None, state=None, owner="alice", policy="default",
           names=None, initial_date=0, sensitive=False, sym_value=None):
    """kind, uid, value, masks, state must be concrete (built outside tracing: the SQLAlchemy
    instrumentation costs ~0.5 s per object under tracing); owner, policy, names, initial_date,
    sensitive and sym_value (a symbolic replacement for .value) may be symbolic."""
    with NoTracing():
        o = _mk_base(kind, value)
        o.unique_identifier = uid
        if masks is not None and hasattr(o, "cryptographic_usage_masks"):
            o.cryptographic_usage_masks = list(masks)
        if state is not None and hasattr(o, "state"):
            o.state = state
    o._owner = owner
    o.operation_policy_name = policy
    o.initial_date = initial_date
    o.sensitive = sensitive
    if names is not None:
        o.names = list(names)
    if sym_value is not None:
        o.value = sym_value
    return o


TRANSIENT = {"_client_identity", "_protocol_version", "_attribute_policy", "_data_session", "_id_placeholder",
             "is_asynchronous", "_logger", "_cryptography_engine", "_data_store_session_factory", "_process_operation",
             "process_request"}


def engine_frame(e):
    """Everything of the engine that is *not* per-request transient state: no request may change it."""
    return (
        [(v.major, v.minor) for v in e._protocol_versions],
        (e.default_protocol_version.major, e.default_protocol_version.minor),
        sorted((k.name, getattr(v, "__name__", None)) for k, v in e._object_map.items()),
        copy.deepcopy(e._operation_policies),
        e.database_path,
        sorted(k for k in e.__dict__ if k not in TRANSIENT),
    )


_real_copy = copy


def _kind_of(o):
    for k in KINDS:
        if type(o).__name__ == k:
            return k
    return None


def pie_clone(o, memo=None):
    """copy.deepcopy for the engine module.  A pie object built outside a real session cannot be
    deep-copied (SQLAlchemy's list listeners run before the copied instance has its index columns:
    an artefact of the stub store, not of PyKMIP), so managed objects are cloned field by field;
    everything else is deep-copied as usual."""
    k = _kind_of(o) if isinstance(o, pobjects.ManagedObject) else None
    if k is None:
        return _real_copy.deepcopy(o, memo) if memo is not None else _real_copy.deepcopy(o)
    with NoTracing():
        c = _mk_base(k, None)
        c.unique_identifier = o.unique_identifier
        if hasattr(o, "cryptographic_usage_masks"):
            c.cryptographic_usage_masks = list(o.cryptographic_usage_masks)
        if hasattr(o, "state"):
            c.state = o.state
        for g in o.object_groups:
            c.object_groups.append(pobjects.ObjectGroup(object_group=g.object_group))
        for a in o.app_specific_info:
            c.app_specific_info.append(pobjects.ApplicationSpecificInformation(
                application_namespace=a.application_namespace, application_data=a.application_data))
    for f in FIELDS:
        if f in ("unique_identifier", "state") or not hasattr(o, f):
            continue
        try:
            setattr(c, f, getattr(o, f))
        except Exception:
            pass
    c.names = list(o.names)
    if hasattr(o, "key_wrapping_data"):
        c.key_wrapping_data = _real_copy.deepcopy(o.key_wrapping_data)
    return c


def warm_up():
    """Configure the SQLAlchemy mappers once, outside tracing (first mapped-object
    instantiation is otherwise executed symbolically: minutes, then RecursionError)."""
    for k in KINDS:
        o = mk_obj(k)
        o.object_groups.append(pobjects.ObjectGroup(object_group="g"))
        o.app_specific_info.append(pobjects.ApplicationSpecificInformation(
            application_namespace="ns", application_data="d"))
        snapshot(o)
    _template()


FIELDS = ["unique_identifier", "_object_type", "value", "operation_policy_name", "sensitive", "initial_date",
          "_owner", "state", "cryptographic_algorithm", "cryptographic_length", "key_format_type",
          "certificate_type", "data_type", "opaque_type", "split_key_parts", "key_part_identifier",
          "split_key_threshold", "split_key_method", "prime_field_size"]


def snapshot(o):
    """Deep, comparable snapshot of everything a client can observe of a stored object."""
    d = {}
    for f in FIELDS:
        if hasattr(o, f):
            d[f] = getattr(o, f)
    d["names"] = list(o.names)
    d["object_groups"] = [g.object_group for g in o.object_groups]
    d["app_specific_info"] = [(a.application_namespace, a.application_data) for a in o.app_specific_info]
    if hasattr(o, "cryptographic_usage_masks"):
        d["masks"] = sorted(m.value for m in o.cryptographic_usage_masks)
    if hasattr(o, "key_wrapping_data"):
        d["key_wrapping_data"] = copy.deepcopy(o.key_wrapping_data)
    return d


warm_up()
