"""Runner: ./vcheck Cxx --tier quick|thorough | --setup | --replay <file> | --selftest

Expands the condition list of a property, fans the conditions out over worker
processes (one condition per process, at most KV_JOBS at a time), applies the
known-findings protocol, replays counterexamples, writes evidence/<id>.json.
"""
import fnmatch
import hashlib
import importlib
import json
import os
import subprocess
import sys
import time
from concurrent.futures import ThreadPoolExecutor

HERE = os.path.dirname(os.path.dirname(os.path.abspath(__file__)))
REPO = os.environ.get("KV_REPO", "/repo")
JOBS = int(os.environ.get("KV_JOBS", "16"))
EXIT_OK, EXIT_VIOLATION, EXIT_MACHINERY = 0, 1, 3

PROPS = {
    # id: (harness modules, level category)
}


def registry():
    from kv import props
    return props.PROPS


def load_known():
    p = os.path.join(HERE, "known_findings.json")
    if not os.path.exists(p):
        return []
    with open(p) as f:
        return json.load(f)["findings"]


def run_worker(modname, tier, cond, extra_env=None):
    wall_cap = cond.twin_timeout + cond.timeout * 2 + 120
    cmd = ["timeout", "-k", "10", str(int(wall_cap)), sys.executable, "-m", "kv.worker", modname, tier, cond.name]
    env = dict(os.environ)
    env["PYTHONPATH"] = HERE + os.pathsep + env.get("PYTHONPATH", "")
    env["PYTHONHASHSEED"] = "0"
    if extra_env:
        env.update(extra_env)
    t0 = time.time()
    try:
        p = subprocess.run(cmd, cwd=HERE, env=env, stdout=subprocess.PIPE, stderr=subprocess.PIPE, text=True)
        out = p.stdout
        rc = p.returncode
        err = p.stderr
    except Exception as e:  # pragma: no cover
        out, rc, err = "", -1, repr(e)
    res = None
    for line in out.splitlines():
        if line.startswith("KVRESULT "):
            res = json.loads(line[len("KVRESULT "):])
    if res is None:
        res = dict(cond.to_json())
        res["module"] = modname
        if rc in (124, 137):
            res["verdict"] = "unknown"
            res["note"] = "worker exceeded wall cap %ds" % wall_cap
        else:
            res["verdict"] = "harness_error"
            res["error"] = "worker exit %s without result; stderr tail: %s" % (rc, err[-1500:])
    res["worker_wall_s"] = round(time.time() - t0, 2)
    return res


def finding_applies(f, prop, cond):
    return f["property"] == prop and fnmatch.fnmatch(cond.name, f.get("match", "*"))


def write_replay(prop, res):
    d = os.path.join(HERE, "replays", prop)
    os.makedirs(d, exist_ok=True)
    body = dict(property=prop, module=res["module"], tier=res["tier"], name=res["name"],
                factory=res["factory"], kwargs=res["kwargs"], args=res["cex"],
                message=[m["message"] for m in res.get("messages", [])][:3],
                replay_detail=res.get("replay_detail"))
    h = hashlib.sha1(json.dumps(body, sort_keys=True).encode()).hexdigest()[:10]
    path = os.path.join(d, "%s-%s.json" % (res["name"], h))
    with open(path, "w") as f:
        json.dump(body, f, indent=1, sort_keys=True)
    return path


def replay_file(path):
    """Re-run a recorded counterexample concretely (plain CPython, no tracing)."""
    from kv import rt  # noqa: F401
    with open(path) as f:
        body = json.load(f)
    if body["module"] == "kv.conc":
        from kv import conc
        return EXIT_VIOLATION if conc.replay_custom(body) else EXIT_OK
    from kv import worker
    mod = importlib.import_module(body["module"])
    h = getattr(mod, body["factory"])(**body["kwargs"])
    args = {k: worker.unjson(v) for k, v in body["args"].items()}
    ok, detail = worker.concrete_call(h, args)
    print("replay %s: harness %s %s args=%r -> %s (%s)" % (
        path, body["factory"], body["kwargs"], args, "HOLDS" if ok else "FAILS", detail))
    return EXIT_OK if ok else EXIT_VIOLATION


def check_known_concretely(prop, known, modnames):
    """Re-execute the recorded concrete input of every listed finding of this property, in a
    subprocess (CrossHair's import-time patches never live in the runner).

    open + still failing -> KNOWN-FINDING line; open + no longer failing -> note;
    fixed + failing again -> VIOLATION (a fixed entry suppresses nothing)."""
    entries = [f for f in known if f["property"] == prop]
    if not entries:
        return []
    code = (
        "import json,sys,importlib\n"
        "from kv import rt, worker\n"
        "out=[]\n"
        "for f in json.load(sys.stdin):\n"
        "    try:\n"
        "        mod=importlib.import_module(f['module'])\n"
        "        h=getattr(mod,f['factory'])(**f.get('kwargs',{}))\n"
        "        args={k:worker.unjson(v) for k,v in f['args'].items()}\n"
        "        ok,detail=worker.concrete_call(h,args)\n"
        "    except Exception as e:\n"
        "        ok,detail=None,'could not re-execute: %r'%(e,)\n"
        "    out.append([f['key'],ok,detail])\n"
        "print('KVKNOWN '+json.dumps(out))\n")
    env = dict(os.environ)
    env["PYTHONPATH"] = HERE + os.pathsep + env.get("PYTHONPATH", "")
    p = subprocess.run([sys.executable, "-c", code], input=json.dumps(entries), cwd=HERE, env=env,
                       stdout=subprocess.PIPE, stderr=subprocess.PIPE, text=True)
    res = {}
    for line in p.stdout.splitlines():
        if line.startswith("KVKNOWN "):
            for key, ok, detail in json.loads(line[len("KVKNOWN "):]):
                res[key] = (ok, detail)
    out = []
    for f in entries:
        ok, detail = res.get(f["key"], (None, "no result: " + p.stderr[-300:]))
        out.append((f, ok, detail))
    return out


def run_property(prop, tier, only=None):
    t0 = time.time()
    reg = registry()
    if prop not in reg:
        print("unknown or unclaimed property %s" % prop)
        return EXIT_MACHINERY
    spec = reg[prop]
    seed = int(os.environ.get("VERIF_SEED", "0") or 0)
    from kv import selftest
    st = selftest.run(quiet=True)
    if not st["ok"]:
        print("MACHINERY-ERROR: model self-test failed: %s" % st["failures"][:3])
        return EXIT_MACHINERY
    known = [f for f in load_known() if f["property"] == prop]
    open_known = [f for f in known if f.get("status") == "open"]
    # 1. listed findings, concretely
    known_seen = []
    kf_lines = []
    regressions = []
    for f, ok, detail in check_known_concretely(prop, known, spec["modules"]):
        if ok is None:
            print("note: listed finding %s could not be re-executed (%s)" % (f["key"], detail))
        elif f.get("status") == "open":
            if not ok:
                kf_lines.append("KNOWN-FINDING: property=%s %s" % (prop, f["what"]))
                known_seen.append(f["key"])
            else:
                print("note: listed finding %s no longer reproduces (%s)" % (f["key"], detail))
        elif not ok:
            regressions.append((f, detail))
    for line in kf_lines:
        print(line)
    # 2. all conditions (regions of open findings excluded inside the worker)
    jobs = []
    custom_results = []
    if spec.get("custom"):
        # a property decided by direct solver queries instead of CrossHair conditions (C10): run in a
        # subprocess (threads, module patching) and take its result records as they are
        env = dict(os.environ)
        env["PYTHONPATH"] = HERE + os.pathsep + env.get("PYTHONPATH", "")
        code = ("import json,sys,importlib\n"
                "m=importlib.import_module(%r)\n"
                "print('KVCUSTOM '+json.dumps(m.run_custom(%r,%r)))\n" % (spec["custom"], prop, tier))
        pr = subprocess.run(["timeout", "-k", "10", "3600", sys.executable, "-c", code], cwd=HERE, env=env,
                            stdout=subprocess.PIPE, stderr=subprocess.PIPE, text=True)
        for line in pr.stdout.splitlines():
            if line.startswith("KVCUSTOM "):
                custom_results = json.loads(line[len("KVCUSTOM "):])
        if not custom_results:
            custom_results = [dict(name="custom-runner", module=spec["custom"], tier=tier, factory="run_custom", kwargs={},
                                   verdict="harness_error", error="custom runner exit %s: %s" % (pr.returncode, pr.stderr[-1500:]))]
    for modname in spec["modules"]:
        mod = importlib.import_module(modname)
        for c in mod.conditions(tier):
            if only and not fnmatch.fnmatch(c.name, only):
                continue
            jobs.append((modname, c))
    # longest first so the tail is short
    jobs.sort(key=lambda mc: -mc[1].timeout)
    results = list(custom_results)
    with ThreadPoolExecutor(max_workers=JOBS) as ex:
        futs = [ex.submit(run_worker, m, tier, c) for m, c in jobs]
        for fu in futs:
            results.append(fu.result())
    violations, machinery, inconclusive, confirmed = [], [], [], []
    for r in results:
        v = r.get("verdict")
        if v == "confirmed" and r.get("twin_ok") in (True, None):
            confirmed.append(r)
        elif v == "refuted":
            if r.get("replay_reproduced"):
                violations.append(r)
            else:
                machinery.append(r)
        elif v == "harness_error":
            machinery.append(r)
        else:
            inconclusive.append(r)
    rc = EXIT_OK
    replay_paths = []
    for f, detail in regressions:
        r = dict(module=f["module"], tier=tier, name="fixed-" + f["key"], factory=f["factory"],
                 kwargs=f.get("kwargs", {}), cex=f["args"], messages=[{"message": "fixed finding is back: " + f["what"]}],
                 replay_detail=detail)
        path = write_replay(prop, r)
        print("VIOLATION property=%s replay=%s" % (prop, path))
        print("  the defect recorded as fixed (%s) reproduces again: %s" % (f["key"], detail))
        rc = EXIT_VIOLATION
    for r in violations:
        path = write_replay(prop, r)
        replay_paths.append(path)
        r["replay_file"] = path
        print("VIOLATION property=%s replay=%s" % (prop, path))
        print("  condition %s: %s" % (r["name"], "; ".join(m["message"] for m in r.get("messages", []))[:600]))
        rc = EXIT_VIOLATION
    for r in machinery:
        print("MACHINERY-ERROR: condition %s: %s" % (
            r["name"], (r.get("error") or r.get("replay_detail") or str(r.get("messages")))[-800:]))
        if rc == EXIT_OK:
            rc = EXIT_MACHINERY
    for r in inconclusive:
        print("INCONCLUSIVE: condition %s verdict=%s twin_ok=%s paths=%s (%s)" % (
            r["name"], r.get("verdict"), r.get("twin_ok"), r.get("paths"), r.get("note", "")))
    write_evidence(prop, tier, seed, spec, results, confirmed, inconclusive, violations, machinery,
                   known_seen, st, time.time() - t0, len(regressions))
    print("%s %s: %d conditions: %d confirmed, %d inconclusive, %d violations, %d machinery errors; "
          "%d known findings; %.1fs" % (prop, tier, len(results), len(confirmed), len(inconclusive),
                                        len(violations), len(machinery), len(known_seen), time.time() - t0))
    return rc


def write_evidence(prop, tier, seed, spec, results, confirmed, inconclusive, violations, machinery,
                   known_seen, st, wall, n_regressions=0):
    paths = sum(int(r.get("paths") or 0) for r in results)
    conf_paths = sum(int(r.get("confirmed_paths") or 0) for r in results)
    funcs = sorted({f for r in results for f in (r.get("functions_encoded") or [])})
    samples = []
    for r in results:
        samples.append({
            "condition": r.get("name"), "harness": "%s.%s" % (r.get("module"), r.get("factory")),
            "params": r.get("kwargs"), "bounds": r.get("bounds"), "verdict": r.get("verdict"),
            "twin_refuted": r.get("twin_ok"), "twin_witness": (r.get("twin") or {}).get("cex"),
            "paths": r.get("paths"), "confirmed_paths": r.get("confirmed_paths"),
            "solver_queries": r.get("queries"), "solver_unknown": r.get("unknown"),
            "solver_s": r.get("solver_s"), "wall_s": r.get("wall_s"),
            "counterexample": r.get("cex"), "replay_file": r.get("replay_file"),
            "part": r.get("part"),
        })
    ev = {
        "property_id": prop,
        "tier": tier,
        "seed": seed,
        "level": spec.get("level", "other"),
        "coverage": {
            "explanation": spec["explanation"],
            "evaluations": max(paths, 1),
            "distinct_nontrivial": conf_paths,
            "rule": "one evaluation = one execution path of the harness through the real code, its branch "
                    "feasibility decided by z3; distinct+non-trivial = paths that ran to the post-condition and "
                    "were confirmed (paths cut by an assumption or ending in an expected rejection are counted "
                    "only in evaluations); a condition is 'confirmed' only when its whole path tree was exhausted",
            "samples": samples,
            "exhaustive": bool(results) and len(confirmed) == len(results),
            "functions_encoded": funcs,
            "bounds": sorted({"%s: %s" % (r.get("name"), r.get("bounds")) for r in results}),
            "stubs": spec.get("stubs", []),
            "outside_claim": spec.get("outside", []),
            "conditions_total": len(results),
            "conditions_confirmed": len(confirmed),
            "conditions_inconclusive": [r.get("name") for r in inconclusive],
            "conditions_refuted": [r.get("name") for r in violations],
            "machinery_errors": [r.get("name") for r in machinery],
            "vacuity_twins_ok": sum(1 for r in results if r.get("twin_ok")),
            "queries_discharged": sum(int(r.get("queries") or 0) for r in results),
            "solver_unknown_answers": sum(int(r.get("unknown") or 0) for r in results),
            "solver_time_s": round(sum(float(r.get("solver_s") or 0) for r in results), 3),
            "known_findings_seen": known_seen,
            "model_selftest": {k: st[k] for k in st if k != "failures"},
            "checker_cmd": "./vcheck %s --tier %s" % (prop, tier),
            "repo": REPO,
        },
        "assumptions": spec.get("assumptions", []) + [
            "CPython 3.12, z3 5.1, CrossHair 0.0.110 proxy semantics and exhaustion verdict",
            "kv/models.py models of int.to_bytes, struct.pack('!c'), os.urandom (validated by kv/selftest.py)",
        ],
        "wall_s": round(wall, 2),
        "violations": len(violations) + n_regressions,
    }
    evdir = os.environ.get("KV_EVIDENCE_DIR") or os.path.join(HERE, "evidence")
    os.makedirs(evdir, exist_ok=True)
    with open(os.path.join(evdir, "%s.json" % prop), "w") as f:
        json.dump(ev, f, indent=1, sort_keys=True)


def main(argv):
    if not argv or argv[0] in ("-h", "--help"):
        print(__doc__)
        return 0
    if argv[0] == "--setup" or argv[0] == "--selftest":
        from kv import selftest
        st = selftest.run(quiet=False)
        return EXIT_OK if st["ok"] else EXIT_MACHINERY
    if argv[0] == "--replay":
        return replay_file(argv[1])
    prop = argv[0]
    tier = os.environ.get("VERIF_TIER", "quick")
    only = None
    if "--tier" in argv:
        tier = argv[argv.index("--tier") + 1]
    if "--only" in argv:
        only = argv[argv.index("--only") + 1]
    return run_property(prop, tier, only)


if __name__ == "__main__":
    sys.exit(main(sys.argv[1:]))
