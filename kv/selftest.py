"""Validation of the C-boundary models in kv/models.py (DESIGN.md 1.4).

(a) byte-decomposition lemma: the linear constraint  v = sum b_i*256^i, 0<=b_i<=255
    determines b_i = bits 8i..8i+7 of v   -- proved in QF_BV for widths 1,4,8 by z3
    (python API) and, when present, the cvc5 and z3 binaries on the same SMT-LIB text;
    any disagreement or '(error' => failure.
(b) model vs native: for boundary vectors of every struct format PyKMIP uses, the
    model run under CrossHair on a *symbolic* argument constrained to the vector's
    value must produce exactly the native bytes (and unpack must invert).
(c) '!c' pass-through and symbolic-bool packing agree with native results.
Result is cached under .venv keyed by the hash of the model sources.
"""
import hashlib
import json
import os
import shutil
import struct
import subprocess
import sys
import tempfile
import time

HERE = os.path.dirname(os.path.dirname(os.path.abspath(__file__)))

FORMATS = {
    "!i": [0, 1, -1, 2 ** 31 - 1, -2 ** 31, 255, 256, -256, 65536, 0x12345678],
    "!I": [0, 1, 2 ** 32 - 1, 2 ** 31, 255, 256, 0x420078, 0xDEADBEEF],
    "!q": [0, 1, -1, 2 ** 63 - 1, -2 ** 63, 2 ** 32, -2 ** 32, 0x0102030405060708, 1439111206],
    "!Q": [0, 1, 2 ** 64 - 1, 2 ** 63, 2 ** 32],
    "!B": [0, 1, 127, 128, 255],
}
OVERFLOW = {
    "!i": [2 ** 31, -2 ** 31 - 1], "!I": [-1, 2 ** 32], "!q": [2 ** 63, -2 ** 63 - 1],
    "!Q": [-1, 2 ** 64], "!B": [-1, 256],
}


def lemma_smt2(nbytes):
    w = 8 * nbytes + 8
    lines = ["(set-logic QF_BV)"]
    for i in range(nbytes):
        lines.append("(declare-const b%d (_ BitVec 8))" % i)
    lines.append("(declare-const v (_ BitVec %d))" % w)
    lines.append("(assert (bvult v (bvshl (_ bv1 %d) (_ bv%d %d))))" % (w, 8 * nbytes, w))
    terms = []
    for i in range(nbytes):
        terms.append("(bvshl ((_ zero_extend %d) b%d) (_ bv%d %d))" % (w - 8, i, 8 * i, w))
    s = terms[0]
    for t in terms[1:]:
        s = "(bvadd %s %s)" % (s, t)
    lines.append("(assert (= v %s))" % s)
    diffs = ["(not (= b%d ((_ extract %d %d) v)))" % (i, 8 * i + 7, 8 * i) for i in range(nbytes)]
    lines.append("(assert (or %s))" % " ".join(diffs) if len(diffs) > 1 else "(assert %s)" % diffs[0])
    lines.append("(check-sat)")
    return "\n".join(lines) + "\n"


def check_lemma(failures, info):
    import z3
    for n in (1, 4, 8):
        text = lemma_smt2(n)
        s = z3.Solver()
        s.from_string(text.replace("(check-sat)\n", ""))
        t = time.time()
        r = str(s.check())
        info.setdefault("lemma", []).append({"bytes": n, "solver": "z3py-" + z3.get_version_string(),
                                             "result": r, "s": round(time.time() - t, 3)})
        if r != "unsat":
            failures.append("byte lemma width %d: z3py says %s" % (n, r))
        for binary, args in (("cvc5", []), ("z3", ["-smt2"])):
            exe = shutil.which(binary)
            if not exe:
                continue
            with tempfile.NamedTemporaryFile("w", suffix=".smt2", dir=os.path.join(HERE, ".venv"),
                                             delete=False) as f:
                f.write(text)
                path = f.name
            try:
                t = time.time()
                p = subprocess.run([exe] + args + [path], stdout=subprocess.PIPE, stderr=subprocess.STDOUT,
                                   text=True, timeout=120)
                out = p.stdout.strip()
                info["lemma"].append({"bytes": n, "solver": binary, "result": out[:40],
                                      "s": round(time.time() - t, 3)})
                if "(error" in out or out.split()[:1] != ["unsat"]:
                    failures.append("byte lemma width %d: %s says %r" % (n, binary, out[:80]))
            except Exception as e:
                failures.append("byte lemma width %d: %s failed: %r" % (n, binary, e))
            finally:
                os.unlink(path)


# ---- (b),(c): run under CrossHair ----------------------------------------------------

def _mk_pack_fn(fmt):
    vecs = FORMATS[fmt]
    native = [struct.pack(fmt, v) for v in vecs]
    over = OVERFLOW[fmt]

    def f(i: int, v: int) -> bool:
        """
        post: _
        """
        if 0 <= i < len(vecs):
            if v != vecs[i]:
                return True
            b = struct.pack(fmt, v)
            if bytes(b) != native[i]:
                return False
            return struct.unpack(fmt, b)[0] == vecs[i]
        j = i - len(vecs)
        if 0 <= j < len(over):
            if v != over[j]:
                return True
            try:
                struct.pack(fmt, v)
            except struct.error:
                return True
            return False
        return True
    return f


def _mk_sym_roundtrip(fmt):
    lo = {"!i": -2 ** 31, "!I": 0, "!q": -2 ** 63, "!Q": 0, "!B": 0}[fmt]
    hi = {"!i": 2 ** 31 - 1, "!I": 2 ** 32 - 1, "!q": 2 ** 63 - 1, "!Q": 2 ** 64 - 1, "!B": 255}[fmt]
    size = struct.calcsize(fmt)

    def f(v: int) -> bool:
        """
        post: _
        """
        ok_range = lo <= v <= hi
        try:
            b = struct.pack(fmt, v)
        except struct.error:
            return not ok_range
        if not ok_range:
            return False
        return len(b) == size and struct.unpack(fmt, b)[0] == v
    return f


def _char_fn():
    def f(b: bytes, flag: bool) -> bool:
        """
        post: _
        """
        if len(b) != 1:
            try:
                struct.pack("!c", b)
            except struct.error:
                return True
            return False
        p = struct.pack("!c", b)
        if not (len(p) == 1 and p[0] == b[0] and struct.unpack("!c", p)[0] == b):
            return False
        q = struct.pack("!Q", flag)
        return struct.unpack("!Q", q)[0] == (1 if flag else 0)
    return f


def _fmt_fn():
    vecs = [0, 7, -1, 10, 99, 100, -100, 4294967296, -9223372036854775808, 1500000000]
    texts = ["v=%d;" % v for v in vecs]

    def f(i: int, v: int) -> bool:
        """
        post: _
        """
        if not (0 <= i < len(vecs)) or v != vecs[i]:
            return True
        return "v={};".format(v) == texts[i] and "v={0:d};".format(v) == texts[i] and str(v) == texts[i][2:-1]
    return f


def _fmt_inverse_fn():
    def f(v: int) -> bool:
        """
        post: _
        """
        if not (-100 < v < 1000):
            return True
        t = "{}".format(v)
        a = -v if v < 0 else v
        digits = 1 if a < 10 else 2 if a < 100 else 3
        return len(t) == digits + (1 if v < 0 else 0) and (t[0] == "-") == (v < 0)
    return f


class _Ver(object):
    def __init__(self, a, b):
        self.a, self.b = a, b

    def __str__(self):
        return "{0}.{1}".format(self.a, self.b)


def _fmt_obj_fn():
    def f(a: int, b: int) -> bool:
        """
        post: _
        """
        if not (0 <= a <= 99 and 0 <= b <= 9):
            return True
        t = "KMIP {0} x".format(_Ver(a, b))
        if a == 12 and b == 3:
            return t == "KMIP 12.3 x"
        return t.startswith("KMIP ") and t.endswith(" x") and len(t) == 5 + (1 if a < 10 else 2) + 2 + 2
    return f


def check_models(failures, info):
    from kv import worker
    fns = []
    for fmt in FORMATS:
        fns.append(("vectors " + fmt, _mk_pack_fn(fmt)))
        fns.append(("symbolic round trip " + fmt, _mk_sym_roundtrip(fmt)))
    fns.append(("char/bool", _char_fn()))
    fns.append(("int format vectors", _fmt_fn()))
    fns.append(("int format inverse", _fmt_inverse_fn()))
    fns.append(("plain object format", _fmt_obj_fn()))
    info["models"] = []
    for name, fn in fns:
        r = worker.analyze(fn, 60)
        info["models"].append({"check": name, "verdict": r["verdict"], "paths": r["paths"], "wall_s": r["wall_s"]})
        if r["verdict"] != "confirmed":
            failures.append("model check %s: %s %s" % (name, r["verdict"], r.get("messages")))


def _key():
    h = hashlib.sha256()
    for fn in ("kv/models.py", "kv/selftest.py", "kv/worker.py"):
        with open(os.path.join(HERE, fn), "rb") as f:
            h.update(f.read())
    try:
        import crosshair
        h.update(getattr(crosshair, "__version__", "?").encode())
    except Exception:
        pass
    return h.hexdigest()


def run(quiet=True):
    cache = os.path.join(HERE, ".venv", "selftest.json")
    key = _key()
    if os.path.exists(cache):
        try:
            with open(cache) as f:
                st = json.load(f)
            if st.get("key") == key and st.get("ok"):
                st["cached"] = True
                if not quiet:
                    print("self-test: ok (cached)")
                return st
        except Exception:
            pass
    # run in a subprocess so that CrossHair's patches never live in the runner process
    p = subprocess.run([sys.executable, "-m", "kv.selftest"], cwd=HERE, stdout=subprocess.PIPE,
                       stderr=subprocess.PIPE, text=True,
                       env=dict(os.environ, PYTHONPATH=HERE + os.pathsep + os.environ.get("PYTHONPATH", "")))
    st = None
    for line in p.stdout.splitlines():
        if line.startswith("KVSELFTEST "):
            st = json.loads(line[len("KVSELFTEST "):])
    if st is None:
        st = {"ok": False, "failures": ["selftest crashed: " + p.stderr[-1500:]]}
    st["key"] = key
    st["cached"] = False
    if st["ok"]:
        try:
            with open(cache, "w") as f:
                json.dump(st, f)
        except Exception:
            pass
    if not quiet:
        print("self-test: %s" % ("ok" if st["ok"] else "FAILED"))
        for k in ("lemma", "models"):
            for row in st.get(k, []):
                print("  ", row)
        for fl in st.get("failures", []):
            print("  FAIL", fl)
    return st


def _main():
    failures, info = [], {}
    t0 = time.time()
    try:
        check_lemma(failures, info)
        check_models(failures, info)
    except BaseException as e:
        import traceback
        failures.append("exception: " + "".join(traceback.format_exception(type(e), e, e.__traceback__))[-1500:])
    info["ok"] = not failures
    info["failures"] = failures
    info["wall_s"] = round(time.time() - t0, 2)
    print("KVSELFTEST " + json.dumps(info))


if __name__ == "__main__":
    _main()
