#!/bin/sh
# usage: kv/mutate.sh <patch-file | revert:<commit>> <property> [--only glob]
# Copies /repo to a scratch dir, applies the patch (or reverts the commit), runs the property's
# quick check against the copy (KV_REPO), prints the verdict, removes the copy.
set -e
HERE="$(cd "$(dirname "$0")/.." && pwd)"
SPEC="$1"; PROP="$2"; shift 2
D="$(mktemp -d /tmp/kvmut.XXXXXX)"
trap 'rm -rf "$D"' EXIT
rsync -a --exclude .git /repo/ "$D/repo/"
case "$SPEC" in
  revert:*) git -C /repo show "${SPEC#revert:}" | (cd "$D/repo" && patch -R -p1 -s) ;;
  *) (cd "$D/repo" && patch -p1 -s < "$SPEC") ;;
esac
cd "$HERE"
set +e
KV_REPO="$D/repo" KV_EVIDENCE_DIR="$D/evidence" ./vcheck "$PROP" --tier quick "$@" > "$D/out.txt" 2>&1
RC=$?
grep -E "^(VIOLATION|KNOWN-FINDING|MACHINERY|INCONCLUSIVE)|conditions:" "$D/out.txt" | cut -c1-300 | head -12
echo "MUTANT $SPEC on $PROP: exit $RC => $( [ $RC -eq 1 ] && echo DETECTED || echo MISSED )"
