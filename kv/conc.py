"""C10 - concurrent sessions behave as if served one request at a time.

CrossHair does not model threads; the schedule quantifier is handled by a direct z3 encoding over
access traces *recorded from the real code* (DESIGN.md section 2, C10):

1. the shared engine fields are found from /repo's source (ast: instance attributes assigned outside
   __init__) and, dynamically, every instance attribute written while a request is served;
2. each request of a menu is run once through the real KmipSession._handle_message_loop against a
   real KmipEngine (stub store) whose class is replaced by a recording subclass and whose locks
   (every lock the engine module creates) are recording locks: the run yields a trace of events
   R(field) / W(field) / ACQ / REL / TRY (timed or non-blocking acquire);
3. z3: every event gets an integer time stamp; program order per thread; lock sections of different
   threads do not overlap; a timed/non-blocking acquire may fail only while another thread holds the
   lock.  Query: is there a schedule that is NOT conflict-serialisable, i.e. conflicting accesses
   (same field, at least one write, different threads) a1<b1 and b2<a2 (2 threads), or a 3-cycle
   (3 threads)?  unsat => every interleaving of these traces is equivalent to a serial order of whole
   requests.  sat => the model is a schedule; it is replayed with real threads forced into that
   order and reported only if the responses / final store differ from every serial order.
"""
import ast
import copy
import itertools
import json
import os
import sys
import threading
import time
import types

from kv import rt  # noqa: F401

import z3

from kv import stubs, sessstubs as SS, payloads as P
from kv.stubs import mk_obj, snapshot, FakeSession, NullLogger, FakeTime

from kmip.core import enums, utils
from kmip.core.messages import contents, messages
from kmip.services.server import engine as engine_mod
from kmip.services.server import session as session_mod
from kmip.services.server import policy as spolicy
from kmip.core import policy as cpolicy

OP = enums.Operation


# ---- 1. shared fields -------------------------------------------------------------------------------

def shared_fields_from_source():
    src = open(engine_mod.__file__.replace(".pyc", ".py")).read()
    tree = ast.parse(src)
    out = set()
    for node in ast.walk(tree):
        if isinstance(node, ast.ClassDef) and node.name == "KmipEngine":
            for fn in node.body:
                if isinstance(fn, ast.FunctionDef) and fn.name != "__init__":
                    for n in ast.walk(fn):
                        targets = []
                        if isinstance(n, ast.Assign):
                            targets = n.targets
                        elif isinstance(n, (ast.AugAssign, ast.AnnAssign)):
                            targets = [n.target]
                        for t in targets:
                            for tt in ast.walk(t):
                                if isinstance(tt, ast.Attribute) and isinstance(tt.value, ast.Name) \
                                        and tt.value.id == "self" and isinstance(tt.ctx, ast.Store):
                                    out.add(tt.attr)
    return out


# ---- 2. recording ------------------------------------------------------------------------------------

class Recorder(object):
    """Per-thread event lists.  An optional scheduler forces a global order during replay."""

    def __init__(self):
        self.traces = {}
        self.current = threading.local()
        self.sched = None
        self.written = set()

    def start(self, tid):
        self.current.tid = tid
        self.traces[tid] = []

    def tid(self):
        return getattr(self.current, "tid", None)

    def event(self, kind, what):
        tid = self.tid()
        if tid is None:
            return
        tr = self.traces[tid]
        idx = len(tr)
        if self.sched is not None:
            self.sched.wait_turn(tid, idx)
        tr.append((kind, what))
        if kind == "W":
            self.written.add(what)
        if self.sched is not None:
            self.sched.done(tid, idx)


class RecordingLock(object):
    """Stands in for threading.Lock/RLock created by the engine module."""
    contended_mode = False      # recording: pretend a timed / non-blocking acquire found the lock taken

    def __init__(self, rec, name):
        self.rec = rec
        self.name = name
        self.owner = None
        self.depth = 0
        self.real = threading.RLock()

    def acquire(self, blocking=True, timeout=-1):
        timed = (not blocking) or (timeout is not None and timeout >= 0)
        me = self.rec.tid()
        if timed:
            self.rec.event("TRY", self.name)
            busy = (self.owner is not None and self.owner != me) or (RecordingLock.contended_mode and self.depth == 0)
            if busy:
                return False            # the time-out elapsed / the lock was taken
        if self.depth == 0 or self.owner != me:
            self.rec.event("ACQ", self.name)
        ok = self.real.acquire()
        self.owner = me
        self.depth += 1
        return ok

    def release(self):
        self.depth -= 1
        if self.depth == 0:
            self.owner = None
            self.rec.event("REL", self.name)
        self.real.release()

    __enter__ = acquire

    def __exit__(self, *a):
        self.release()
        return False


def _mk_recording_engine(rec, store):
    """A real KmipEngine built by the real __init__ (in-memory SQLite), with every lock the engine
    module creates replaced by a RecordingLock and attribute access recorded."""
    locks = []

    def mk_lock(*a, **k):
        lk = RecordingLock(rec, "lock%d" % len(locks))
        locks.append(lk)
        return lk
    real_threading = engine_mod.threading
    engine_mod.threading = types.SimpleNamespace(RLock=mk_lock, Lock=mk_lock, local=threading.local,
                                                 current_thread=threading.current_thread)
    try:
        e = engine_mod.KmipEngine(policies=copy.deepcopy(cpolicy.policies), database_path=":memory:")
    finally:
        engine_mod.threading = real_threading
    e._logger = NullLogger()
    e._data_store_session_factory = store
    e._cryptography_engine = P.RecordingCrypto()
    engine_mod.time = FakeTime(1500000000)
    static = shared_fields_from_source()

    class Rec(type(e)):
        def __getattribute__(self, name):
            v = object.__getattribute__(self, name)
            if name in static or name in rec.written:
                rec.event("R", name)
            return v

        def __setattr__(self, name, value):
            rec.event("W", name)
            object.__setattr__(self, name, value)
    e.__class__ = Rec
    return e, locks


def _store():
    M = enums.CryptographicUsageMask
    a = mk_obj("SymmetricKey", uid=1, owner="alice", names=["n0"], state=enums.State.ACTIVE, masks=list(M))
    b = mk_obj("PublicKey", uid=2, owner="bob", names=["pk"], state=enums.State.ACTIVE, masks=[M.VERIFY])
    return [a, b]


def _encode(items, version, bad=False):
    from harness.c08 import mk_request
    req = mk_request(items, version=version)
    st = utils.BytearrayStream()
    req.write(st, kmip_version=stubs.KMIP_VERSION.get(tuple(version), enums.KMIPVersion.KMIP_1_2))
    buf = bytes(st.buffer)
    if bad:
        buf = buf[:11] + bytes([5]) + buf[12:]
    return buf


def request_menu():
    """name -> (client CN, request bytes)"""
    m = {}
    m["create-alice-1.2"] = ("alice", _encode([(OP.CREATE, None, P.mk("CREATE"))], (1, 2)))
    m["get-bob-1.4"] = ("bob", _encode([(OP.GET, None, P.mk("GET", "1"))], (1, 4)))
    m["get-alice-1.0"] = ("alice", _encode([(OP.GET, None, P.mk("GET", "1"))], (1, 0)))
    m["query-carol-1.0"] = ("carol", _encode([(OP.QUERY, None, P.mk("QUERY"))], (1, 0)))
    m["discover-dave-1.1"] = ("dave", _encode([(OP.DISCOVER_VERSIONS, None, P.mk("DISCOVER_VERSIONS"))], (1, 1)))
    m["locate-alice-2.0"] = ("alice", _encode([(OP.LOCATE, None, P.mk("LOCATE"))], (2, 0)))
    m["attrlist-bob-1.3"] = ("bob", _encode([(OP.GET_ATTRIBUTE_LIST, None, P.mk("GET_ATTRIBUTE_LIST", "2"))], (1, 3)))
    m["batch-alice-1.2"] = ("alice", _encode([(OP.CREATE, b"a", P.mk("CREATE")),
                                              (OP.GET, b"b", P.mk("GET", None))], (1, 2)))
    m["undecodable-eve"] = ("eve", _encode([(OP.GET, None, P.mk("GET", "1"))], (1, 2), bad=True))
    m["badversion-frank"] = ("frank", _encode([(OP.GET, None, P.mk("GET", "1"))], (1, 9)))
    return m


def serve(e, cn, reqb):
    conn = SS.FakeConnection(reqb, cert=SS.FakeCert([cn], [SS.CLIENT_AUTH]))
    s = SS.mk_session(e, conn)
    s._handle_message_loop()
    return bytes(conn.sent[0]) if conn.sent else None


def record(name, contended=False):
    cn, reqb = request_menu()[name]
    rec = Recorder()
    store = FakeSession(_store())
    e, locks = _mk_recording_engine(rec, store)
    rec.start("T")
    RecordingLock.contended_mode = contended
    try:
        try:
            serve(e, cn, reqb)
        except Exception:
            pass
    finally:
        RecordingLock.contended_mode = False
    return rec.traces["T"], rec.written


# ---- 3. z3 ---------------------------------------------------------------------------------------------

def _sections(trace):
    """[(acq index, rel index)] of outermost lock sections (re-entrancy collapsed by the lock)."""
    out, open_ = [], None
    for i, (k, w) in enumerate(trace):
        if k == "ACQ" and open_ is None:
            open_ = i
        elif k == "REL" and open_ is not None:
            out.append((open_, i))
            open_ = None
    if open_ is not None:
        out.append((open_, len(trace) - 1))
    return out


def check_interleavings(traces, shared, stats):
    """traces: {thread: [(kind, what)]}.  Returns None (unsat: serialisable) or a schedule
    [(thread, index)] witnessing a conflict cycle."""
    tids = sorted(traces)
    s = z3.Solver()
    s.set("timeout", 60000)
    t = {(a, i): z3.Int("t_%s_%d" % (a, i)) for a in tids for i in range(len(traces[a]))}
    allv = list(t.values())
    if allv:
        s.add(z3.Distinct(*allv))
    for a in tids:
        for i in range(len(traces[a])):
            s.add(t[(a, i)] >= 0)
            if i:
                s.add(t[(a, i - 1)] < t[(a, i)])
    secs = {a: _sections(traces[a]) for a in tids}
    for a, b in itertools.combinations(tids, 2):
        for (a0, a1) in secs[a]:
            for (b0, b1) in secs[b]:
                s.add(z3.Or(t[(a, a1)] < t[(b, b0)], t[(b, b1)] < t[(a, a0)]))
    # a failed timed acquire (TRY not followed by ACQ) is only possible while another thread holds the lock
    for a in tids:
        for i, (k, w) in enumerate(traces[a]):
            if k == "TRY" and not (i + 1 < len(traces[a]) and traces[a][i + 1][0] == "ACQ"):
                held = []
                for b in tids:
                    if b != a:
                        for (b0, b1) in secs[b]:
                            held.append(z3.And(t[(b, b0)] < t[(a, i)], t[(a, i)] < t[(b, b1)]))
                s.add(z3.Or(*held) if held else z3.BoolVal(False))
    acc = {a: [(i, k, w) for i, (k, w) in enumerate(traces[a]) if k in ("R", "W") and w in shared] for a in tids}

    def before(a, b):
        """some access of a conflicts with and precedes some access of b"""
        c = []
        for (i, k1, w1) in acc[a]:
            for (j, k2, w2) in acc[b]:
                if w1 == w2 and (k1 == "W" or k2 == "W"):
                    c.append(t[(a, i)] < t[(b, j)])
        return z3.Or(*c) if c else z3.BoolVal(False)
    cycles = []
    for a, b in itertools.combinations(tids, 2):
        cycles.append(z3.And(before(a, b), before(b, a)))
    for a, b, c in itertools.permutations(tids, 3):
        if a == min(a, b, c):
            cycles.append(z3.And(before(a, b), before(b, c), before(c, a)))
    s.add(z3.Or(*cycles) if cycles else z3.BoolVal(False))
    t0 = time.perf_counter()
    r = s.check()
    stats["queries"] += 1
    stats["solver_s"] += time.perf_counter() - t0
    if str(r) == "unsat":
        return "unsat", None
    if str(r) != "sat":
        stats["unknown"] += 1
        return "unknown", None
    m = s.model()
    order = sorted(t, key=lambda k: m[t[k]].as_long())
    return "sat", order


# ---- 4. replay with real threads forced into the schedule ----------------------------------------------

class Scheduler(object):
    def __init__(self, order, patience=3.0):
        self.order = list(order)
        self.pos = 0
        self.cv = threading.Condition()
        self.patience = patience
        self.diverged = False

    def wait_turn(self, tid, idx):
        with self.cv:
            end = time.time() + self.patience
            while not self.diverged and self.pos < len(self.order) and self.order[self.pos] != (tid, idx):
                if (tid, idx) not in self.order[self.pos:]:
                    self.diverged = True           # control flow differs from the recording
                    self.cv.notify_all()
                    break
                left = end - time.time()
                if left <= 0:
                    self.diverged = True
                    self.cv.notify_all()
                    break
                self.cv.wait(left)

    def done(self, tid, idx):
        with self.cv:
            if not self.diverged and self.pos < len(self.order) and self.order[self.pos] == (tid, idx):
                self.pos += 1
            self.cv.notify_all()


def run_threads(names, order=None, serial=None):
    """Serve the named requests on ONE engine: in the forced interleaving `order`, or serially in
    the order `serial`.  Returns (responses by thread name, store snapshot)."""
    menu = request_menu()
    rec = Recorder()
    store = FakeSession(_store())
    e, locks = _mk_recording_engine(rec, store)
    out = {}
    tids = ["T%d" % i for i in range(len(names))]

    def work(tid, name):
        rec.start(tid)
        cn, reqb = menu[name]
        try:
            out[tid] = serve(e, cn, reqb)
        except Exception as ex:
            out[tid] = "EXC %s: %s" % (type(ex).__name__, ex)
    if serial is not None:
        for i in serial:
            work(tids[i], names[i])
    else:
        rec.sched = Scheduler(order)
        ths = [threading.Thread(target=work, args=(tids[i], names[i])) for i in range(len(names))]
        for th in ths:
            th.start()
        for th in ths:
            th.join(30)
    snap = sorted((str(snapshot(o)) for o in store.objs))
    return out, snap, (rec.sched.diverged if rec.sched else False)


def _strip_time(b):
    return b


def confirm(names, order):
    """Does the forced schedule produce something no serial order produces?"""
    got = run_threads(names, order=order)
    serials = []
    for perm in itertools.permutations(range(len(names))):
        serials.append(run_threads(names, serial=list(perm)))
    for sr in serials:
        if got[0] == sr[0] and got[1] == sr[1]:
            return False, got, "matches the serial order of some permutation"
    return True, got, "differs from every serial order"


# ---- entry point used by kv.run ----------------------------------------------------------------------------

def run_custom(prop, tier):
    thorough = tier == "thorough"
    menu = request_menu()
    names = sorted(menu)
    static = shared_fields_from_source()
    results = []
    traces = {}
    written = set()
    timed = {}
    t00 = time.time()
    for n in names:
        tr, wr = record(n)
        traces[n] = tr
        written |= wr
        timed[n] = any(k == "TRY" for k, w in tr)
    alt = {}
    for n in names:
        if timed[n]:
            alt[n], _ = record(n, contended=True)
    shared = set(static) | set(written)
    funcs = ["kmip.services.server.engine:KmipEngine.process_request (and everything it calls, recorded)",
             "kmip.services.server.session:KmipSession._handle_message_loop"]
    groups = list(itertools.combinations_with_replacement(names, 2))
    if thorough:
        core = ["create-alice-1.2", "get-bob-1.4", "query-carol-1.0", "discover-dave-1.1", "badversion-frank",
                "undecodable-eve"]
        groups += list(itertools.combinations(core, 3))
    for grp in groups:
        t0 = time.time()
        stats = {"queries": 0, "solver_s": 0.0, "unknown": 0}
        variants = [tuple(traces[n] for n in grp)]
        # a thread whose code uses timed acquires may also run its "lock was busy" trace
        for i, n in enumerate(grp):
            if n in alt:
                v = list(variants[0])
                v[i] = alt[n]
                variants.append(tuple(v))
        verdict, detail, cex = "confirmed", "", None
        for v in variants:
            tt = {"T%d" % i: v[i] for i in range(len(grp))}
            r, order = check_interleavings(tt, shared, stats)
            if r == "unknown":
                verdict, detail = "unknown", "solver returned unknown"
                break
            if r == "sat":
                bad, got, why = confirm(list(grp), order)
                if bad:
                    verdict = "refuted"
                    cex = {"requests": list(grp), "schedule": [[a, i] for a, i in order],
                           "events": {a: [list(x) for x in tt[a]] for a in tt}}
                    detail = "non-serialisable schedule replayed with real threads: %s" % why
                    break
                else:
                    verdict, detail = "unknown", ("a conflict cycle exists (schedule found by the solver) but the "
                                                  "forced replay %s" % why)
        res = dict(name="interleave-" + "+".join(grp), module="kv.conc", tier=tier, factory="interleave",
                   kwargs={"requests": list(grp)}, verdict=verdict, twin_ok=None, note=detail,
                   bounds="all interleavings of the recorded event traces of %s (%s events); lock sections mutually "
                          "exclusive; shared fields %s" % (list(grp), [len(traces[n]) for n in grp], sorted(shared)),
                   paths=len(variants), confirmed_paths=len(variants) if verdict == "confirmed" else 0,
                   queries=stats["queries"], unknown=stats["unknown"], solver_s=round(stats["solver_s"], 3),
                   wall_s=round(time.time() - t0, 3), part="interleavings", functions_encoded=funcs,
                   messages=[{"message": detail}])
        if cex is not None:
            res["cex"] = cex
            res["replay_reproduced"] = True
            res["replay_detail"] = detail
        results.append(res)
    # vacuity guard: the same query with the lock events removed must be satisfiable for a pair that
    # shares fields (otherwise the encoding could not see a race at all)
    t0 = time.time()
    stats = {"queries": 0, "solver_s": 0.0, "unknown": 0}
    a, b = "create-alice-1.2", "get-bob-1.4"
    nolock = {"T0": [ev for ev in traces[a] if ev[0] in ("R", "W")], "T1": [ev for ev in traces[b] if ev[0] in ("R", "W")]}
    r, order = check_interleavings(nolock, shared, stats)
    results.append(dict(name="witness-race-without-lock", module="kv.conc", tier=tier, factory="witness",
                        kwargs={}, verdict="confirmed" if r == "sat" else "unknown", twin_ok=(r == "sat"),
                        note="reachability witness: with ACQ/REL events deleted the solver must find a conflict cycle",
                        bounds="traces of %s and %s with the lock events removed" % (a, b), paths=1,
                        confirmed_paths=1 if r == "sat" else 0, queries=stats["queries"], unknown=stats["unknown"],
                        solver_s=round(stats["solver_s"], 3), wall_s=round(time.time() - t0, 3), part="vacuity",
                        functions_encoded=funcs, messages=[]))
    # structural assumption: one engine shared, one session object per connection
    results.append(_server_shape())
    return results


def _server_shape():
    from kmip.services.server import server as server_mod
    src = open(server_mod.__file__).read()
    tree = ast.parse(src)
    n_engine = 0
    session_in_loop = False
    for node in ast.walk(tree):
        if isinstance(node, ast.Call):
            f = node.func
            nm = getattr(f, "attr", getattr(f, "id", ""))
            if nm == "KmipEngine":
                n_engine += 1
            if nm == "KmipSession":
                session_in_loop = True
    ok = n_engine == 1 and session_in_loop
    return dict(name="server-shape", module="kv.conc", tier="", factory="server_shape", kwargs={},
                verdict="confirmed" if ok else "unknown", twin_ok=None,
                note="server.py constructs one KmipEngine and a KmipSession per connection (the only object shared "
                     "between sessions is the engine)", bounds="ast read-out of kmip/services/server/server.py",
                paths=1, confirmed_paths=1 if ok else 0, queries=0, unknown=0, solver_s=0.0, wall_s=0.0,
                part="assumption", functions_encoded=[], messages=[])


def replay_custom(body):
    """./vcheck --replay for a C10 counterexample."""
    names = body["kwargs"]["requests"]
    order = [(a, i) for a, i in body["args"]["schedule"]]
    bad, got, why = confirm(names, order)
    print("replay: requests %s forced into the recorded schedule -> %s (%s)" % (names, "FAILS" if bad else "HOLDS", why))
    return bad


if __name__ == "__main__":
    rs = run_custom("C10", sys.argv[1] if len(sys.argv) > 1 else "quick")
    for r in rs:
        print(r["name"], r["verdict"], r.get("note", "")[:100], r["queries"], r["solver_s"], r["wall_s"])
