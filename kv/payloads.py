"""Request-payload builders shared by the engine-level harnesses.

``mk(op, uid, **opts)`` builds a well-formed request payload for operation ``op``
addressing identifier ``uid`` (a str, or None for 'use the ID placeholder').
"""
from kv import rt  # noqa: F401

from kmip.core import attributes, enums, objects as cobjects, primitives
from kmip.core.factories import attributes as attribute_factory
from kmip.core.messages import payloads
from kmip.core.messages.contents import ProtocolVersion  # noqa: F401
from kmip.core import utils  # noqa: F401

AF = attribute_factory.AttributeFactory()
OP = enums.Operation

# operations that address a stored object, and the operation whose policy entry governs them
# (Encrypt/Decrypt/Sign/SignatureVerify/MAC and the DeriveKey base objects are governed by GET)
OBJECT_OPS = {
    "GET": OP.GET, "GET_ATTRIBUTES": OP.GET_ATTRIBUTES, "GET_ATTRIBUTE_LIST": OP.GET_ATTRIBUTE_LIST,
    "ACTIVATE": OP.ACTIVATE, "REVOKE": OP.REVOKE, "DESTROY": OP.DESTROY,
    "DELETE_ATTRIBUTE": OP.DELETE_ATTRIBUTE, "MODIFY_ATTRIBUTE": OP.MODIFY_ATTRIBUTE,
    "SET_ATTRIBUTE": OP.SET_ATTRIBUTE,
    "ENCRYPT": OP.GET, "DECRYPT": OP.GET, "SIGN": OP.GET, "SIGNATURE_VERIFY": OP.GET, "MAC": OP.GET,
    "DERIVE_KEY": OP.GET,
}
MIN_VERSION = {
    "ENCRYPT": (1, 2), "DECRYPT": (1, 2), "SIGN": (1, 2), "SIGNATURE_VERIFY": (1, 2), "MAC": (1, 2),
    "SET_ATTRIBUTE": (2, 0), "DISCOVER_VERSIONS": (1, 1),
}


def cparams(**kw):
    base = dict(block_cipher_mode=enums.BlockCipherMode.CBC, padding_method=enums.PaddingMethod.PKCS5,
                hashing_algorithm=enums.HashingAlgorithm.SHA_256,
                cryptographic_algorithm=enums.CryptographicAlgorithm.AES,
                digital_signature_algorithm=enums.DigitalSignatureAlgorithm.SHA256_WITH_RSA_ENCRYPTION)
    base.update(kw)
    return attributes.CryptographicParameters(**base)


def name_attr(value, index=None):
    return AF.create_attribute(enums.AttributeType.NAME,
                               attributes.Name.create(value, enums.NameType.UNINTERPRETED_TEXT_STRING), index)


def template(attrs):
    return cobjects.TemplateAttribute(attributes=list(attrs))


def sym_template(alg=enums.CryptographicAlgorithm.AES, length=128, mask=None, extra=()):
    attrs = []
    if alg is not None:
        attrs.append(AF.create_attribute(enums.AttributeType.CRYPTOGRAPHIC_ALGORITHM, alg))
    if length is not None:
        attrs.append(AF.create_attribute(enums.AttributeType.CRYPTOGRAPHIC_LENGTH, length))
    if mask is not None:
        attrs.append(AF.create_attribute(enums.AttributeType.CRYPTOGRAPHIC_USAGE_MASK, mask))
    attrs.extend(extra)
    return template(attrs)


def mk(op, uid=None, version=(1, 2), **o):
    v2 = tuple(version) >= (2, 0)
    if op == "GET":
        spec = None
        if o.get("wrap_uid") is not None:
            spec = cobjects.KeyWrappingSpecification(
                wrapping_method=o.get("wrapping_method", enums.WrappingMethod.ENCRYPT),
                encryption_key_information=cobjects.EncryptionKeyInformation(
                    unique_identifier=o["wrap_uid"],
                    cryptographic_parameters=cparams(block_cipher_mode=enums.BlockCipherMode.NIST_KEY_WRAP)),
                encoding_option=o.get("encoding_option", enums.EncodingOption.NO_ENCODING))
        return payloads.GetRequestPayload(unique_identifier=uid, key_format_type=o.get("key_format_type"),
                                          key_wrapping_specification=spec)
    if op == "GET_ATTRIBUTES":
        return payloads.GetAttributesRequestPayload(unique_identifier=uid, attribute_names=o.get("names"))
    if op == "GET_ATTRIBUTE_LIST":
        return payloads.GetAttributeListRequestPayload(unique_identifier=uid)
    if op == "ACTIVATE":
        return payloads.ActivateRequestPayload(
            unique_identifier=attributes.UniqueIdentifier(uid) if uid is not None else None)
    if op == "REVOKE":
        code = o.get("code", enums.RevocationReasonCode.KEY_COMPROMISE)
        return payloads.RevokeRequestPayload(
            unique_identifier=attributes.UniqueIdentifier(uid) if uid is not None else None,
            revocation_reason=cobjects.RevocationReason(code=code),
            compromise_occurrence_date=primitives.DateTime(6, enums.Tags.COMPROMISE_OCCURRENCE_DATE))
    if op == "DESTROY":
        return payloads.DestroyRequestPayload(
            unique_identifier=attributes.UniqueIdentifier(uid) if uid is not None else None)
    if op == "DELETE_ATTRIBUTE":
        if v2:
            if o.get("reference"):
                return payloads.DeleteAttributeRequestPayload(
                    unique_identifier=uid,
                    attribute_reference=cobjects.AttributeReference(
                        vendor_identification="Acme", attribute_name=o.get("attr_name", "Name")))
            return payloads.DeleteAttributeRequestPayload(
                unique_identifier=uid,
                current_attribute=cobjects.CurrentAttribute(
                    attribute=o.get("attr_value") or attributes.Name.create(
                        "name1", enums.NameType.UNINTERPRETED_TEXT_STRING)))
        return payloads.DeleteAttributeRequestPayload(unique_identifier=uid, attribute_name=o.get("attr_name", "Name"),
                                                      attribute_index=o.get("attr_index"))
    if op == "MODIFY_ATTRIBUTE":
        if v2:
            cur = o.get("current")
            return payloads.ModifyAttributeRequestPayload(
                unique_identifier=uid,
                current_attribute=cobjects.CurrentAttribute(attribute=cur) if cur is not None else None,
                new_attribute=cobjects.NewAttribute(attribute=o.get("new") or attributes.Name.create(
                    "new", enums.NameType.UNINTERPRETED_TEXT_STRING)))
        return payloads.ModifyAttributeRequestPayload(
            unique_identifier=uid, attribute=o.get("attribute") or name_attr("new", o.get("attr_index")))
    if op == "SET_ATTRIBUTE":
        return payloads.SetAttributeRequestPayload(
            unique_identifier=uid,
            new_attribute=cobjects.NewAttribute(attribute=o.get("new") or primitives.Boolean(True, enums.Tags.SENSITIVE)))
    if op == "ENCRYPT":
        return payloads.EncryptRequestPayload(unique_identifier=uid, cryptographic_parameters=o.get("params", cparams()),
                                              data=o.get("data", b"\x00" * 16), iv_counter_nonce=o.get("iv", b"\x01" * 16))
    if op == "DECRYPT":
        return payloads.DecryptRequestPayload(unique_identifier=uid, cryptographic_parameters=o.get("params", cparams()),
                                              data=o.get("data", b"\x00" * 16), iv_counter_nonce=o.get("iv", b"\x01" * 16))
    if op == "SIGN":
        return payloads.SignRequestPayload(unique_identifier=uid, cryptographic_parameters=o.get("params", cparams()),
                                           data=o.get("data", b"\x00" * 16))
    if op == "SIGNATURE_VERIFY":
        return payloads.SignatureVerifyRequestPayload(unique_identifier=uid,
                                                      cryptographic_parameters=o.get("params", cparams()),
                                                      data=o.get("data", b"\x00" * 16),
                                                      signature_data=o.get("signature", b"\x05" * 16))
    if op == "MAC":
        from kmip.core.objects import Data
        params = o.get("params", cparams(cryptographic_algorithm=enums.CryptographicAlgorithm.HMAC_SHA256))
        return payloads.MACRequestPayload(
            unique_identifier=attributes.UniqueIdentifier(uid) if uid is not None else None,
            cryptographic_parameters=params,
            data=Data(o.get("data", b"\x00" * 16)) if o.get("data", b"x") is not None else None)
    if op == "DERIVE_KEY":
        uids = o.get("uids")
        if uids is None:
            uids = [uid] if uid is not None else []
        return payloads.DeriveKeyRequestPayload(
            object_type=o.get("object_type", enums.ObjectType.SYMMETRIC_KEY),
            unique_identifiers=uids,
            derivation_method=o.get("method", enums.DerivationMethod.HMAC),
            derivation_parameters=o.get("dparams", attributes.DerivationParameters(
                cryptographic_parameters=cparams(), derivation_data=b"\xf0\xf1", salt=b"\x00\x01")),
            template_attribute=o.get("template", sym_template(mask=[enums.CryptographicUsageMask.ENCRYPT])))
    if op == "CREATE":
        return payloads.CreateRequestPayload(
            object_type=o.get("object_type", enums.ObjectType.SYMMETRIC_KEY),
            template_attribute=o.get("template", sym_template(mask=[enums.CryptographicUsageMask.ENCRYPT])))
    if op == "CREATE_KEY_PAIR":
        t = o.get("template", sym_template(alg=enums.CryptographicAlgorithm.RSA, length=2048,
                                           mask=[enums.CryptographicUsageMask.SIGN]))
        t = cobjects.TemplateAttribute(attributes=t.attributes, tag=enums.Tags.COMMON_TEMPLATE_ATTRIBUTE)
        return payloads.CreateKeyPairRequestPayload(common_template_attribute=t)
    if op == "REGISTER":
        secret = o.get("secret")
        if secret is None:
            from kmip.pie import factory as pfactory
            from kmip.pie import objects as pobjects
            v = o.get("value", b"\x07" * 16)
            secret = pfactory.ObjectFactory().convert(
                pobjects.SymmetricKey(enums.CryptographicAlgorithm.AES, len(v) * 8, v))
        return payloads.RegisterRequestPayload(
            object_type=o.get("object_type", enums.ObjectType.SYMMETRIC_KEY),
            template_attribute=o.get("template", sym_template(alg=None, length=None,
                                                               mask=[enums.CryptographicUsageMask.ENCRYPT])),
            managed_object=secret)
    if op == "LOCATE":
        return payloads.LocateRequestPayload(maximum_items=o.get("maximum_items"), offset_items=o.get("offset_items"),
                                             attributes=o.get("attributes"))
    if op == "QUERY":
        return payloads.QueryRequestPayload(query_functions=o.get("functions", [enums.QueryFunction.QUERY_OPERATIONS]))
    if op == "DISCOVER_VERSIONS":
        return payloads.DiscoverVersionsRequestPayload(protocol_versions=o.get("versions"))
    raise ValueError(op)


class RecordingCrypto(object):
    """Stands in for CryptographyEngine: records every call, returns canned values."""

    def __init__(self, out=b"\xAA" * 16, fail=None):
        self.calls = []
        self.out = out
        self.fail = fail

    def _call(self, name, a, k):
        self.calls.append((name, a, k))
        if self.fail is not None:
            raise self.fail

    def create_symmetric_key(self, algorithm, length):
        self._call("create_symmetric_key", (algorithm, length), {})
        # like the real backend: an unusable length is an InvalidField, never a short value
        if length <= 0 or length % 8 != 0:
            from kmip.core import exceptions as kex
            raise kex.InvalidField("The cryptographic length ({0}) is not valid".format(length))
        return {"value": b"\x11" * (length // 8), "format": enums.KeyFormatType.RAW}

    def create_asymmetric_key_pair(self, algorithm, length):
        self._call("create_asymmetric_key_pair", (algorithm, length), {})
        return ({"value": b"\x30\x82\x01\x0a", "format": enums.KeyFormatType.PKCS_1},
                {"value": b"\x30\x82\x02\x5c", "format": enums.KeyFormatType.PKCS_8})

    def mac(self, *a, **k):
        self._call("mac", a, k)
        return self.out

    def encrypt(self, *a, **k):
        self._call("encrypt", a, k)
        return {"cipher_text": self.out, "iv_nonce": None, "auth_tag": None}

    def decrypt(self, *a, **k):
        self._call("decrypt", a, k)
        return self.out

    def sign(self, *a, **k):
        self._call("sign", a, k)
        return self.out

    def verify_signature(self, *a, **k):
        self._call("verify_signature", a, k)
        return True

    def derive_key(self, *a, **k):
        self._call("derive_key", a, k)
        n = k.get("derivation_length", 16)
        return b"\xBB" * n

    def wrap_key(self, *a, **k):
        self._call("wrap_key", a, k)
        return self.out
