"""Registry: property id -> harness modules, claim text, stubs, outside-the-claim list."""

COMMON_OUT = ["inputs beyond the per-condition bounds listed under coverage.bounds"]

PROPS = {
    "C01": dict(
        modules=["harness.c01"],
        level="other",
        explanation="Bounded symbolic execution of the real kmip.core read()/write() pairs (CrossHair executing "
                    "/repo's byte-code with z3 deciding every branch). Each condition is a harness whose "
                    "post-condition is the round-trip property; 'confirmed' means the path tree was exhausted "
                    "and the post-condition shown on every path, i.e. the property holds for every input "
                    "inside the stated bound; a counterexample is replayed concretely before being reported.",
        stubs=[],
        outside=["BigInteger beyond the stated bit bound except the pinned points",
                 "strings longer than the bound", "structures not in the builder table",
                 "values the constructors reject"],
        assumptions=[],
    ),
}

CLAIMS = {
    "C01": dict(
        text="For every value inside the stated bounds (all 32/64-bit integers, every member of every enumeration, "
             "byte/ASCII text strings up to the length bound, BigInteger up to the bit bound, each listed structure "
             "with symbolic leaves and symbolic presence of optional fields, all six KMIP versions where the class "
             "branches on it) the solver shows encode/decode/re-encode agree on every execution path of the real "
             "read()/write() code; outside the bounds nothing is claimed.",
        note="Trusts CPython, z3, CrossHair's proxy semantics, the three C-boundary models (self-tested), and the "
             "harness builders; bounded, not a proof.",
    ),
}

_NOT_BUILT = "harness not built yet in this session (see DESIGN.md section 3 build order)"
NOT_APPLICABLE = {
    "C07": "identifier allocation is SQLite AUTOINCREMENT (C code, on-disk state): no PyKMIP Python code computes, "
           "stores or compares identifiers, so there is nothing to execute symbolically; a hand model of SQLite "
           "would decide nothing about the real code",
}
for _p in ["C%02d" % i for i in range(1, 21)]:
    NOT_APPLICABLE.setdefault(_p, _NOT_BUILT)
