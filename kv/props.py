"""Registry: property id -> harness modules, claim text, stubs, outside-the-claim list."""

COMMON_OUT = ["inputs beyond the per-condition bounds listed under coverage.bounds"]

PROPS = {
    "C01": dict(
        modules=["harness.c01", "harness.c01s"],
        level="other",
        explanation="Bounded symbolic execution of the real kmip.core read()/write() pairs (CrossHair executing "
                    "/repo's byte-code with z3 deciding every branch). Each condition is a harness whose "
                    "post-condition is the round-trip property; 'confirmed' means the path tree was exhausted "
                    "and the post-condition shown on every path, i.e. the property holds for every input "
                    "inside the stated bound; a counterexample is replayed concretely before being reported.",
        stubs=[],
        outside=["BigInteger beyond the stated bit bound except the pinned points",
                 "strings longer than the bound", "structures not in the builder table",
                 "values the constructors reject"],
        assumptions=[],
    ),
    "C02": dict(
        modules=["harness.c02", "harness.c02s"],
        level="other",
        explanation="Bounded symbolic execution of the real primitive writers compared with an independent reading of "
                    "KMIP 1.1 section 9.1 (kv/ttlv_ref.py: no struct, no PyKMIP import): header bytes, mandated "
                    "length, big-endian/two's-complement value, zero padding, multiple of 8 - for every value in the "
                    "bounds; and of the real response construction (process_request, _process_batch, _build_response, "
                    "build_error_response, the session's error answers) whose encoded output is walked by the "
                    "reference walker and checked against the envelope rules of the statement.",
        stubs=["_process_operation stub with symbolic outcome per item (envelope conditions)", "FakeSession",
               "NullLogger", "engine.time returns a symbolic time stamp"],
        outside=["BigInteger beyond the stated bit bound except the pinned points", "strings longer than the bound",
                 "payload contents of real operations inside the envelope (C01/C05/C13 material)",
                 "batches of more than 3 items"],
        assumptions=["kv/ttlv_ref.py is a faithful reading of KMIP 1.1 section 9.1"],
    ),
    "C03": dict(
        modules=["harness.c03", "harness.c03_sites"],
        level="other",
        explanation="Bounded symbolic execution of the real access-control code: (1) the decision function against "
                    "a reference predicate written from the statement and docs/source/server.rst, with the policy "
                    "shape and both identities symbolic; (2) the choke point and the Locate listing over a stub "
                    "store; (3) every handler that addresses an object, under a denying policy: masked error, "
                    "store untouched, nothing disclosed. A condition counts only when its path tree is exhausted.",
        stubs=["FakeSession (three query shapes of the engine)", "NullLogger", "engine.time pinned"],
        outside=["policies with more than two groups / requesters in more than two groups (the loop is uniform)",
                 "multi-client histories (one-step argument: no handler writes owner or policy name - asserted)"],
        assumptions=["FakeSession renders SQLite's integer-affinity comparison of a text identifier with the key as "
                     "str(obj.unique_identifier) == uid"],
    ),
    "C04": dict(
        modules=["harness.c04"],
        level="other",
        explanation="One symbolic step of each real handler from an arbitrary stored state (state, usage-mask bits, "
                    "revocation code, addressing route symbolic) over a stub store and a recording crypto backend; "
                    "oracle = reference successor relation and reference gate from the statement. Because the step "
                    "starts from any storable state, histories of any length are covered by induction.",
        stubs=["FakeSession", "RecordingCrypto (records calls, canned outputs)", "NullLogger", "engine.time pinned"],
        outside=["states DESTROYED / DESTROYED_COMPROMISED as pre-states (a destroyed object's row is deleted, so no "
                 "stored object has them; the step harness asserts every surviving post-state is one of the 4 "
                 "storable states, which makes that invariant inductive)",
                 "usage masks are symbolic in the matching bit and in 'all other bits' as one group"],
        assumptions=["representation invariant: stored state is one of PRE_ACTIVE, ACTIVE, DEACTIVATED, COMPROMISED"],
    ),
    "C08": dict(
        modules=["harness.c08"],
        level="other",
        explanation="Bounded symbolic execution of the real process_request/_process_batch loop with a stubbed "
                    "_process_operation whose outcome per item is symbolic (batch size, ID presence, continuation "
                    "option symbolic); of the real handlers for the intra-batch ID placeholder; and of each mutating "
                    "handler over the stub store for the frame condition 'a failing item leaves no trace'.",
        stubs=["FakeSession", "RecordingCrypto", "_process_operation stub (batch-loop conditions only)",
               "NullLogger", "engine.time pinned"],
        outside=["batches of more than 3 items", "stored lists longer than 2", "text values longer than 2 chars"],
        assumptions=[],
    ),
    "C11": dict(
        modules=["harness.c11"],
        level="other",
        explanation="Two-run product harness over the real process_request (real batch loop, handlers, access "
                    "control): run A starts from an arbitrary transient engine state (symbolic ID placeholder, any "
                    "protocol version and attribute policy, any identity, async flag), run B from a fresh engine, on "
                    "equal stores; the solver must show the encoded responses and resulting stores equal on every path.",
        stubs=["FakeSession", "RecordingCrypto", "NullLogger", "engine.time pinned"],
        outside=["stores of more than two objects", "batches inside the probe request (intra-batch placeholder use is C08)",
                 "placeholder strings longer than 2 characters"],
        assumptions=["the transient fields are those assigned outside __init__ (the same six the C10 ast scan finds)"],
    ),
    "C12": dict(
        modules=["harness.c12"],
        level="other",
        explanation="Bounded symbolic execution of the real session code: (1) _receive_request/_receive_bytes over a "
                    "connection whose recv() returns chunks of symbolic sizes, body bytes symbolic; (2) two iterations "
                    "of the real _handle_message_loop on one connection with the certificate shape, parser outcome, "
                    "identity, engine outcome, response size and client maximum symbolic in the first and a good "
                    "request in the second; (3) the real request decoder and real engine behind the real loop on a "
                    "valid request with one byte at a symbolic position replaced by a symbolic value. Oracles: exactly "
                    "one answer accepted by the independent TTLV walker/envelope check, right error class, engine "
                    "reached only after a complete decode, store untouched by an undecodable request, no exception "
                    "other than ConnectionClosed leaves the loop.",
        stubs=["FakeConnection (stream + chunk sizes + peer-certificate token)", "FakeCert (duck-typed x509 certificate)",
               "DER loader -> FakeCert", "binascii.hexlify -> b'' (DEBUG text)", "NullLogger", "FakeSession",
               "scripted RequestMessage.read / engine.process_request (one-response conditions only)"],
        outside=["more than one corrupted byte per message; unstructured random buffers",
                 "recv() returning None (non-blocking sockets are not used by the server)",
                 "TLS handshake and socket shutdown in run()", "bodies longer than the framing bound"],
        assumptions=["a socket's recv(n) returns between 1 and n bytes, or b'' once the peer has closed"],
    ),
    "C17": dict(
        modules=["harness.c17"],
        level="other",
        explanation="Bounded symbolic execution of the real KmipSession._handle_message_loop, authenticate, the auth "
                    "helper functions and the SLUGS connector with a real engine behind the session. Certificate shape, "
                    "TLS-auth flag, number and text of common names, URL presence and the outcomes of both SLUGS calls "
                    "per block are symbolic; block kinds and enabled flags are sliced per condition. Oracle: reference "
                    "predicate from the statement; engine entered iff identity established, with exactly that identity.",
        stubs=["FakeConnection", "FakeCert (duck-typed certificate)", "DER loader -> FakeCert",
               "requests.get -> scripted outcomes per block and endpoint", "FakeSession", "NullLogger",
               "binascii.hexlify -> b''"],
        outside=["TLS handshake and certificate chain validation (OpenSSL)", "more than 3 plugin blocks",
                 "HTTP status codes other than 200/404", "common names longer than 2 characters"],
        assumptions=["cryptography's x509 objects behave as the two accessors the auth helpers use"],
    ),
    "C18": dict(
        modules=["harness.c18"],
        level="other",
        explanation="Bounded symbolic execution of the real PolicyDirectoryMonitor (constructor, scan_policies, the "
                    "cache-stack helpers, get_json_files) over a fake file system, with the event history symbolic "
                    "(which file, which content, per event) and the policy definitions opaque symbolic tokens, compared "
                    "after every scan with a reference model written from the statement; and of the real "
                    "read_policy_from_file/parse_policy on documents whose shape at every level is chosen by symbolic "
                    "selectors.",
        stubs=["FakeFS: os.listdir, os.path.getmtime, read_policy_from_file (monitor conditions)", "signal.signal no-op",
               "time.time pinned", "open()/json.loads hand over the symbolic document (parser conditions)", "NullLogger"],
        outside=["histories longer than the bounds", "more than 3 files, more than 2 policy names",
                 "edits that do not advance the file's modification time (the monitor cannot see them)",
                 "the multiprocessing manager's dict proxy (a plain dict stands in)"],
        assumptions=["a file's modification time strictly increases whenever its content changes and is >= 1"],
    ),
    "C09": dict(
        modules=["harness.c09"],
        level="other",
        explanation="Bounded symbolic execution of every state-changing handler through the real process_request over "
                    "a recording store that remembers the state at each commit (= what a crash or the end of the "
                    "request's session leaves). Oracle per path: success => final state equals the committed state, "
                    "at most one state-changing commit, nothing pending; failure => nothing committed, nothing "
                    "pending, state unchanged; created objects are whole in the committed state.",
        stubs=["TxSession (recording FakeSession)", "RecordingCrypto", "NullLogger", "engine.time pinned"],
        outside=["process death, SQLite journal/fsync behaviour, start-up create_all (all trusted or not encodable)",
                 "stored lists longer than 2, text longer than 1 character"],
        assumptions=["a SQLite/SQLAlchemy commit is atomic and durable", "closing a session discards uncommitted changes"],
    ),
    "C19": dict(
        modules=["harness.c19"],
        level="other",
        explanation="Bounded symbolic execution of the real ProxyKmipClient, KMIPProxy and KMIPProtocol over a fake "
                    "socket: the scripted answer is encoded by the real server-side writers with symbolic status, "
                    "reason, message, identifier and Operation presence and handed out in chunks; the emitted request "
                    "is decoded by the real server-side reader and walked by the independent TTLV walker.",
        stubs=["FakeSocket (stream + chunk sizes, captures sendall)", "binascii.hexlify -> b'' (DEBUG text)",
               "NullLogger", "client configuration read from the package's kmipconfig.ini outside tracing"],
        outside=["TLS/socket setup, configuration-file handling", "methods not in the table (listed in bounds)",
                 "message and identifier texts longer than 2 characters; non-printable text"],
        assumptions=["a legal failure response carries status and reason; the message is optional (KMIP 1.x 6.11)"],
    ),
    "C10": dict(
        modules=[],
        custom="kv.conc",
        level="model_checking",
        explanation="The schedule quantifier is decided by z3 over access traces recorded from the real code: each "
                    "request of a menu is served once by the real KmipSession + KmipEngine with a recording engine "
                    "subclass (reads/writes of every instance field assigned outside __init__ or written during a "
                    "request) and recording locks (every lock the engine module creates). One SMT query per group of "
                    "requests asks for an interleaving with a conflict cycle; unsat means every interleaving of these "
                    "traces is conflict-serialisable. A reachability witness (same query with lock events deleted) must "
                    "be sat.",
        stubs=["FakeSession", "FakeConnection/FakeCert", "RecordingCrypto", "recording lock in place of threading.RLock",
               "engine.time pinned"],
        outside=["requests outside the menu; control flow that changes under interleaving (traces are from serial runs)",
                 "more than 3 concurrent requests", "SQLite-level isolation between the sessions' transactions",
                 "in-place mutation of shared containers (covered by C11's engine frame check)"],
        assumptions=["CPython attribute reads/writes are atomic (GIL)", "threading.RLock semantics",
                     "the only object shared between sessions is the engine (ast read-out of server.py)"],
    ),
    "C20": dict(
        modules=["harness.c20"],
        level="other",
        explanation="Non-interference by self-composition under bounded symbolic execution: each scenario runs twice "
                    "through the real engine (and, for request bytes, the real session and decoder) with two "
                    "independent symbolic secrets and everything else equal; the solver must show every log record at "
                    "INFO or above and every result message equal in the two runs on every path.",
        stubs=["recording loggers (str.format / repr left real)", "engine.time pinned", "RecordingCrypto / SecretCrypto",
               "FakeSession", "FakeConnection / FakeCert", "binascii.hexlify -> b'' in the session's DEBUG records"],
        outside=["DEBUG-level records", "traceback source-line text", "third-party loggers (SQLAlchemy, cryptography)",
                 "the real crypto backend's error texts (C06)", "secrets longer than 8 bytes (no length-dependent "
                 "branch on secret bytes is taken: the reachability twin runs with the same length)"],
        assumptions=["the observables of the statement are log records >= INFO and result messages"],
    ),
    "C05": dict(
        modules=["harness.c05"],
        level="other",
        explanation="Bounded symbolic execution of the Python legs an object travels: the pie Key wrapping-data "
                    "flatten/unflatten, the SQLAlchemy TypeDecorator column conversions, and Register -> (pie "
                    "conversion, stub store) -> Get / GetAttributes through the real engine handlers with symbolic "
                    "value bytes, names, masks and flags; plus the frame condition that read-only operations never "
                    "modify or leave pending changes on stored objects.",
        stubs=["FakeSession / TxSession (the SQL engine leg)", "RecordingCrypto", "NullLogger", "engine.time pinned"],
        outside=["SQLite and SQLAlchemy storing and returning column values unchanged; server restarts (no Python "
                 "state survives one, so they reduce to that trusted leg)", "key pairs, split keys and certificates in "
                 "the register-get conditions (thorough tier adds kinds to the read-only conditions only)",
                 "value lengths other than those listed"],
        assumptions=["the ORM persists exactly the mapped attributes that the snapshot compares"],
    ),
    "C06": dict(
        modules=["harness.c06"],
        level="other",
        explanation="Bounded symbolic execution of the real CryptographyEngine (encrypt/_encrypt_symmetric, decrypt, "
                    "_handle_symmetric_padding, mac, sign, verify_signature) built by its real __init__ after the "
                    "cryptography primitives in its module namespace were replaced by recording fakes whose outputs "
                    "are an injective, readable function of their inputs; and of the real _process_derive_key with a "
                    "backend that returns more bytes than asked. Oracle: reference table from the docstrings and KMIP.",
        stubs=["fake ciphers.Cipher / algorithms.* (real key-size rules) / modes.*", "pure-Python PKCS7 and ANSI X.923 padders",
               "fake hmac.HMAC / cmac.CMAC / hashes.*", "fake serialization loaders and RSA key objects",
               "os.urandom -> fresh symbolic bytes", "FakeSession, NullLogger"],
        outside=["the numerical results of hashing, ciphers, RSA, KDFs (Rust/OpenSSL boundary): equality with reference "
                 "implementations, Verify(Sign) with real keys, freshness of generated keys",
                 "asymmetric encryption, key wrapping and the individual KDF parameterisations (not built)",
                 "plaintext lengths other than 0, 1, block-1, block, block+1, 2*block"],
        assumptions=["the cryptography package computes what its primitives are documented to compute"],
    ),
    "C15": dict(
        modules=["harness.c15"],
        level="other",
        explanation="One symbolic step of the real Set/Modify/DeleteAttribute handlers (KMIP 1.x index form and 2.0 "
                    "current/new/reference forms) from an object whose multi-valued lists have symbolic sizes, with "
                    "index, new value, form and selectors symbolic; oracle = a reference model of the requested effect "
                    "applied to a snapshot, compared field by field, plus 'protected attributes never change' and "
                    "'failure changes nothing' on every path.",
        stubs=["FakeSession", "NullLogger", "engine.time pinned"],
        outside=["stored lists longer than 3", "text longer than 2 characters", "sequences (one step from an arbitrary "
                 "object state covers them by induction over the list sizes in bound)"],
        assumptions=[],
    ),
    "C13": dict(
        modules=["harness.c13"],
        level="other",
        explanation="Bounded symbolic execution of every handler through the real process_request/_process_batch (the "
                    "real catch-all is the observation point). Per condition (operation, stored kind, KMIP version) the "
                    "stored state, every payload-field shape (selector ints) and value leaves (indices, lengths, text) "
                    "are symbolic; the assertion is 'no batch item carries GENERAL_FAILURE for a request the real codec "
                    "encodes and decodes'.",
        stubs=["FakeSession", "RecordingCrypto (may raise the KmipErrors the real backend documents)", "NullLogger",
               "engine.time pinned"],
        outside=["exceptions raised inside the cryptography package for key/IV sizes it rejects (needs the real "
                 "backend)", "payload shapes outside the per-operation menus listed in the bounds"],
        assumptions=["a request is well-formed when RequestMessage.write/read of /repo accept it"],
    ),
    "C14": dict(
        modules=["harness.c14"],
        level="other",
        explanation="Bounded symbolic execution of the real _process_locate (filter loop, date tracking, access-filtered "
                    "listing, sort, slicing) against a reference written from the statement. Decomposed into a "
                    "per-object predicate (one stored object, filter values symbolic, one condition per filter kind / "
                    "pair) and a list level (2-3 objects with symbolic dates, owners, policies, date filters, offset "
                    "and maximum).",
        stubs=["FakeSession", "NullLogger", "engine.time pinned"],
        outside=["stores of more than 3 objects, more than 2 filters", "negative offset/maximum (not protocol values)",
                 "order among objects with equal initial date (the statement leaves ties unordered)",
                 "filter text values come from a 10-entry menu (Locate formats values into DEBUG text)",
                 "objects with initial date 0 (never produced by the server: every creating handler stamps the clock)"],
        assumptions=[],
    ),
    "C16": dict(
        modules=["harness.c16", "harness.c16s"],
        level="other",
        explanation="Bounded symbolic execution of the real version handling: acceptance/echo with arbitrary 32-bit "
                    "major/minor through process_request; operation gating for every Operation member x version against "
                    "an independent introduced-in table; Query/DiscoverVersions consistency; attribute names reported "
                    "per version against an independent added/deprecated table; response encoding version.",
        stubs=["FakeSession", "RecordingCrypto", "NullLogger", "engine.time pinned"],
        outside=["version-conditional payload fields of the codec (the codec gates are checked with the C01 structure "
                 "harnesses)", "DiscoverVersions client lists longer than 3"],
        assumptions=["introduced-in / added / deprecated tables transcribed from the KMIP 1.0-2.0 specifications"],
    ),
}

CLAIMS = {
    "C06": dict(
        text="PLUMBING ONLY: the outputs of the cryptography backend cannot be encoded, so equality with reference "
             "implementations and freshness are not decided. Decided, on every path within the bounds, with the "
             "backend primitives replaced by recording fakes: Encrypt hands the backend exactly the supplied key, IV "
             "(or a generated one of block size that is returned) and AAD, pads exactly for CBC/ECB with the requested "
             "method, returns the first tag-length bytes of the tag, and refuses exactly the unserviceable requests; "
             "Decrypt undoes Encrypt through the same plumbing; MAC selects the hash/cipher the enumeration names and "
             "turns every backend exception into CryptographicFailure; Sign/SignatureVerify use the hash and padding "
             "the parameters name (digital signature algorithm or algorithm+hash pair); DeriveKey stores exactly the "
             "requested number of bytes for keys and secret data.",
        note="The statement's input-output half (results equal independent implementations) follows only under the "
             "assumption that the cryptography package is correct; listed as outside the claim.",
    ),
    "C05": dict(
        text="PARTIAL (the SQL engine leg is trusted): within the bounds, the key-wrapping-data columns reproduce "
             "the supplied dictionary field by field; the usage-mask and enumeration column types satisfy "
             "result(bind(x)) == x for every subset of each mask window and every member; a Register followed by Get "
             "and GetAttributes through the real engine returns the value bytes, type, algorithm, length, format, "
             "names, masks, sensitive flag, group and policy that were supplied; read-only operations (incl. wrapped "
             "Get followed by a committing item) leave the stored object and the committed state untouched; modifying "
             "one object never changes what another reports.",
        note="SQLite/SQLAlchemy storing column values unchanged is trusted, restarts reduce to that leg; client "
             "argument plumbing is C19.",
    ),
    "C20": dict(
        text="For each scenario (every secret-carrying operation with its listed success and failure variants, "
             "through the engine; Register request bytes of five shapes and password credentials through the real "
             "session) two executions that differ only in the secret (independent symbolic bytes) produce identical "
             "log records at INFO and above and identical result status / reason / message - decided over all paths "
             "of the real code; a dependence on the secret is returned as a pair of secrets with the differing record.",
        note="Loggers replaced by recording loggers (formatting left real); clock pinned; recording crypto backend; "
             "where the code realises a secret (repr of bytes inside a DEBUG-only format) the condition is reported "
             "inconclusive, never as passing.",
    ),
    "C10": dict(
        text="BOUNDED MODEL over recorded traces: for every pair (thorough: listed triples) of requests from the "
             "menu, served by different sessions on one engine, z3 shows that no interleaving of their recorded "
             "shared-field accesses and lock events - program order kept, lock sections mutually exclusive, timed "
             "acquires allowed to fail only while the lock is held - contains a conflict cycle, so every schedule is "
             "equivalent to a serial order of whole requests. A satisfiable query is replayed with real threads forced "
             "into the solver's schedule and reported only if responses or store differ from every serial order.",
        note="Traces come from concrete runs of the real session+engine code (one per request of the menu); the "
             "solver quantifies over schedules, not over requests. GIL-atomic attribute access assumed.",
        technique="trace-based bounded model checking with z3: event traces recorded from the real code, all "
                  "interleavings decided by one SMT query per request group, counterexample schedules replayed on real threads",
    ),
    "C19": dict(
        text="For each client method in the table and KMIP version, and every legal response in the bounds (status, "
             "any reason, message absent or any printable text, Operation field present or not, identifier text), "
             "delivered in any chunking in the bounds, the real client returns exactly the carried data on success and "
             "raises the failure error with exactly status, reason and message otherwise; KMIPProtocol.read returns "
             "exactly the framed bytes for every chunking and raises when the stream ends early; every request a "
             "method emits, before and after a version switch, is well-formed TTLV, decodes with the server reader, "
             "names the client's current version and carries the arguments.",
        note="Socket stubbed; responses produced by the real server-side writers; one listed known finding (failure "
             "response without Result Message).",
    ),
    "C09": dict(
        text="PARTIAL: crash points, journals and fsync are outside any encoding; what is decided is the reduction "
             "'every state-changing operation does all its store mutations in one transaction that ends with its "
             "commit and acknowledges only after it; a failing operation commits nothing' - on every path of the real "
             "handlers within the bounds - plus a read-out that the session factory the engine builds is transactional. "
             "Together with the (trusted) atomicity and durability of a SQLite commit this gives the property.",
        note="SQLite/SQLAlchemy commit semantics trusted, not checked; recording stub store (TxSession).",
    ),
    "C18": dict(
        text="After every scan of every history within the bounds (3 symbolic events over 2 files and 7 contents; 2-3 "
             "further symbolic events behind shadowing prefixes over 2-3 files) the policy store equals the reference "
             "model of the statement: each name maps to the definition of the most recently loaded present file that "
             "still defines it, undefined names are gone, built-ins unchanged, an invalid file changes nothing; every "
             "JSON-like document in the shape menu either parses to the reference result or raises ValueError.",
        note="File system, clock and the file reader are stubs for the monitor conditions; open()/json.loads are stubs "
             "for the parser conditions; definitions are opaque symbolic tokens.",
    ),
    "C17": dict(
        text="For every certificate shape (absent; EKU absent / without / with clientAuth; 0-2 common names of any "
             "text), either value of the TLS-auth flag, and every plugin configuration in the sliced menu (no block, "
             "SLUGS blocks enabled / disabled / flag absent / wrongly spelt, unsupported block names; 1-2 blocks, 3 in "
             "thorough) with every outcome of the two SLUGS calls, the real session reaches the real engine exactly "
             "when the reference predicate of the statement establishes an identity, hands over exactly that identity "
             "and group list, and otherwise answers authentication-not-successful with the store untouched.",
        note="Certificate objects, the DER loader and requests.get are stubs; the engine runs over the stub store.",
    ),
    "C12": dict(
        text="For every chunking of the stream (4 arbitrary chunk sizes) and every body up to the bound the framed "
             "request is exactly header + advertised bytes with nothing over-consumed; for every combination of "
             "certificate shape, parser outcome, identity, engine outcome and client maximum the session sends exactly "
             "one well-formed answer of the right class, reaches the engine only after certificate check, full decode "
             "and authentication, replaces an oversize answer, and serves the next good request; a valid request with "
             "any single byte replaced by any value is answered once, well-formed, and executes nothing unless it "
             "decoded completely and its length fields are consistent (one listed known finding: overrunning "
             "*structure* lengths are accepted).",
        note="Environment stubbed (connection, certificate objects, DER loader); single-byte corruptions of 2 (quick) "
             "/ 5 (thorough) seed requests.",
    ),
    "C02": dict(
        text="For every primitive value inside the bounds the bytes written by the real code are identical to those "
             "of an independent TTLV encoder (header, mandated length, two's-complement big-endian value, zero "
             "padding, multiple of 8); every response the engine builds for batches of up to 3 items with any mix of "
             "outcomes, under each KMIP version, and every session-level error answer, encodes to TTLV accepted by an "
             "independent walker, carries the request's version, the clock's time stamp, a batch count equal to the "
             "items present, a status in every item and reason+message exactly on failures.",
        note="Independent reference encoder/walker is ~150 lines written from the specification text; bounded.",
    ),
    "C16": dict(
        text="For every 32-bit (major, minor) the server accepts exactly the six supported versions and echoes the "
             "accepted one in header, return value and attribute policy; every operation is refused as not supported "
             "exactly below its introducing version; Query advertises only available operations; DiscoverVersions "
             "returns exactly the supported subset, newest first; attributes reported under a version are added and "
             "not deprecated in it.",
        note="Independent tables are hand-transcribed; handlers run over the stub store.",
    ),
    "C14": dict(
        text="For every filter kind named in the statement (and listed pairs) with values over the menus/ranges, and "
             "for stores of up to 3 objects with symbolic dates, owners, policies, offset and maximum, the identifiers "
             "Locate returns are exactly those of the reference (permitted AND matching, newest first, requested "
             "window) on every path of the real handler.",
        note="Decomposition justified by the per-object independence of the filter loop; stub store; bounded sizes.",
    ),
    "C13": dict(
        text="For every (operation, stored object kind, version) cell and every parameter shape/value inside the "
             "menus and ranges, no path of the real handlers ends in the General Failure catch-all for a request the "
             "real codec accepts; listed known findings are excluded exactly, anything else is reported.",
        note="Grid cells are conditions; shapes are finite menus (selector ints), values symbolic; recording crypto "
             "backend; stub store.",
    ),
    "C15": dict(
        text="For every attribute name of the rule table (quick: the implemented ones plus representatives), each "
             "operation and request form, and every index/value/list-size in the bounds: the nine protected "
             "attributes and the owner are unchanged on every path, a failing call changes nothing, and a successful "
             "call changes exactly the addressed instance to the requested value, which GetAttributes then reports.",
        note="Reference effect model written from the statement; stub store; bounded list sizes and text lengths.",
    ),
    "C11": dict(
        text="For each probe operation and KMIP version in the grid, with the identifier absent, existing or unknown, "
             "the response bytes and the resulting store are identical whether the engine starts fresh or from any "
             "transient state within the bounds - decided over all paths of the real request-processing code; no request "
             "changes anything of the engine outside its per-request transient fields; and for the listed pairs "
             "(first request, probe) the probe is answered identically by the same engine and by a fresh engine over "
             "the store the first request left.",
        note="Pre-state symbolic instead of exploring histories; stub store; bounded placeholder length and store size.",
    ),
    "C08": dict(
        text="Within the bounds (<=3 items; any mix of outcomes, ID presence, continuation option) every executed item "
             "has exactly one result in order with its operation and ID echoed, processing stops at the first failure "
             "unless CONTINUE, and no exception leaves process_request once an item ran; an ID-less item addresses the "
             "object created earlier in the same batch; every failing mutating handler - and every failing creating "
             "operation (Create, Register, CreateKeyPair, DeriveKey with symbolic template shapes) - leaves all stored "
             "objects and the store event log untouched, with nothing pending for a later item's commit.",
        note="Stubbed _process_operation for the loop conditions; stub store; bounded sizes.",
    ),
    "C04": dict(
        text="For each handler and stored object kind, from every storable state and mask configuration in the "
             "bounds, the post-state is an allowed successor, only Activate/Revoke/Destroy change state or "
             "existence, a failed call changes nothing, and the crypto backend is reached only for an Active object "
             "of the right kind whose mask has the matching bit, and every reported transition is in the committed "
             "state - shown on every path of the real handler code.",
        note="Inductive step from an arbitrary stored state; trusts the stub store and the recording backend; masks "
             "symbolic in 2 groups of bits.",
    ),
    "C03": dict(
        text="For every policy shape, identity pair, requester-group shape, object type and operation inside the "
             "bounds the real decision function agrees with a reference predicate written from the statement; "
             "the choke point raises the not-found-identical error exactly when that predicate denies; every "
             "object-addressing handler under a denying policy leaves the store untouched and discloses nothing.",
        note="Trusts FakeSession's rendering of the engine's three query shapes and the reference predicate; "
             "bounded (<=2 policy groups, identity strings <=2 chars, store <=3 objects).",
    ),
    "C01": dict(
        text="For every value inside the stated bounds (all 32/64-bit integers, every member of every enumeration, "
             "byte/ASCII text strings up to the length bound, BigInteger up to the bit bound, each listed structure "
             "with symbolic leaves and symbolic presence of optional fields, all six KMIP versions where the class "
             "branches on it) the solver shows encode/decode/re-encode agree on every execution path of the real "
             "read()/write() code; outside the bounds nothing is claimed.",
        note="Trusts CPython, z3, CrossHair's proxy semantics, the three C-boundary models (self-tested), and the "
             "harness builders; bounded, not a proof.",
    ),
}

_NOT_BUILT = "harness not built yet in this session (see DESIGN.md section 3 build order)"
NOT_APPLICABLE = {
    "C07": "identifier allocation is SQLite AUTOINCREMENT (C code, on-disk state): no PyKMIP Python code computes, "
           "stores or compares identifiers, so there is nothing to execute symbolically; a hand model of SQLite "
           "would decide nothing about the real code",
}
for _p in ["C%02d" % i for i in range(1, 21)]:
    NOT_APPLICABLE.setdefault(_p, _NOT_BUILT)
