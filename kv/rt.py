"""Run-time helpers shared by harness modules (imported inside worker processes)."""
import os
import sys

REPO = os.environ.get("KV_REPO", "/repo")
if REPO not in sys.path:
    sys.path.insert(0, REPO)

import warnings
warnings.filterwarnings("ignore")

REACHED = False


def reach():
    """Mark that the success path (after the last real-code call) was reached.

    The reachability twin of a harness asserts ``not REACHED``; it must be refuted.
    """
    global REACHED
    REACHED = True


def reset():
    global REACHED
    REACHED = False


class Cond(object):
    """One solver obligation: a harness function instance + its bounds.

    factory/kwargs: ``getattr(module, factory)(**kwargs)`` returns the harness
    function ``h(<symbolic args>) -> bool`` (docstring ``post: _``).
    """

    def __init__(self, name, factory, kwargs=None, bounds="", timeout=120,
                 twin_timeout=60, part="", expect_twin=True, outside=""):
        self.name = name
        self.factory = factory
        self.kwargs = kwargs or {}
        self.bounds = bounds
        self.timeout = timeout
        self.twin_timeout = twin_timeout
        self.part = part
        self.expect_twin = expect_twin
        self.outside = outside

    def to_json(self):
        return dict(name=self.name, factory=self.factory, kwargs=self.kwargs,
                    bounds=self.bounds, timeout=self.timeout,
                    twin_timeout=self.twin_timeout, part=self.part,
                    expect_twin=self.expect_twin)


def check_repo():
    import kmip
    f = os.path.realpath(kmip.__file__)
    if not f.startswith(os.path.realpath(REPO) + os.sep):
        raise RuntimeError("kmip imported from %s, not from %s" % (f, REPO))
