"""Regenerate MANIFEST.json from kv/props.py (run: .venv/bin/python -m kv.mkmanifest)."""
import json
import os

from kv.props import PROPS, NOT_APPLICABLE, CLAIMS

HERE = os.path.dirname(os.path.dirname(os.path.abspath(__file__)))
BASELINE = ("cd /repo && /venv/bin/python -m pytest -ra -q -p no:cacheprovider --timeout=900 "
            "--continue-on-collection-errors")


def main():
    checks = []
    for pid in sorted(PROPS):
        spec = PROPS[pid]
        claim = CLAIMS[pid]
        checks.append({
            "property_id": pid,
            "quick_cmd": "./vcheck %s --tier quick" % pid,
            "thorough_cmd": "./vcheck %s --tier thorough" % pid,
            "evidence_file": "/verif/evidence/%s.json" % pid,
            "replay_cmd_template": "./vcheck --replay {path}",
            "engine": "kv",
            "level_claimed": {"category": spec.get("level", "other"), "text": claim["text"],
                              "design_ref": claim.get("design_ref", "DESIGN.md section 2, %s" % pid)},
            "level_note": claim["note"],
            "technique": claim.get("technique", "bounded symbolic execution of the real code (CrossHair + z3): "
                                   "path-exhaustive within stated bounds, counterexamples replayed concretely"),
        })
    claimed = set(PROPS)
    na = [dict(property_id=k, reason=v) for k, v in sorted(NOT_APPLICABLE.items()) if k not in claimed]
    m = {
        "version": 1,
        "setup_cmd": "./vcheck --setup",
        "hooks": {
            "guard": "PYKMIP_VERIF",
            "enable": "no hooks in /repo: harnesses monkey-patch inside their own worker processes "
                      "(PYKMIP_VERIF is reserved and unused)",
            "baseline_off_cmd": BASELINE,
            "source_commits": [],
            "add_only": True,
        },
        "engines": [{
            "name": "kv", "path": "/verif/kv",
            "serves_properties": sorted(PROPS),
            "kind_free_text": "CrossHair 0.0.110 symbolic execution of /repo's modules with z3 5.1 deciding every "
                              "branch; sharper C-boundary models in kv/models.py (validated by kv/selftest.py with "
                              "z3 and cvc5); direct z3 queries for C10",
        }],
        "checks": checks,
        "not_applicable": na,
        "notes": "All commands run from /verif, bootstrap /verif/.venv offline from /opt/veriftools/wheels when it "
                 "is missing, and analyse /repo's current working tree (KV_REPO overrides). Exit 0 held / known "
                 "findings only, 1 VIOLATION (replayed), 3 machinery error.",
    }
    with open(os.path.join(HERE, "MANIFEST.json"), "w") as f:
        json.dump(m, f, indent=1)
        f.write("\n")
    print("MANIFEST.json: %d checks, %d not applicable" % (len(checks), len(na)))


if __name__ == "__main__":
    main()
