"""One condition per process: symbolic execution of a harness over the real code.

usage: python -m kv.worker <harness module> <tier> <condition name> [--timeout S]
Prints one JSON object (last stdout line, prefixed 'KVRESULT ').
"""
import inspect
import json
import os
import random
import sys
import time
import traceback

from kv import rt  # noqa: F401  (sets sys.path for the repo)

import crosshair.core_and_libs  # noqa: F401,E402
from kv import models  # noqa: F401,E402
import z3  # noqa: E402
import crosshair.core as core  # noqa: E402
from crosshair.options import AnalysisKind, AnalysisOptionSet  # noqa: E402
from crosshair.statespace import MessageType  # noqa: E402
from crosshair.tracers import NoTracing  # noqa: E402

# Contract enforcement on callees (PEP-316 contracts inside the code under test) is not used by
# any harness: PyKMIP has no contracts.  CrossHair's enforcement tracer nevertheless intercepts
# every call and object construction (~40% of path time); switch it off.
import contextlib  # noqa: E402
import crosshair.enforce as _enforce  # noqa: E402


@contextlib.contextmanager
def _no_enforcement(self):
    yield None


_enforce.EnforcedConditions.enabled_enforcement = _no_enforcement

STATS = {"queries": 0, "solver_s": 0.0, "paths": 0, "unknown": 0}
_orig_check = z3.Solver.check


def _check(self, *a):
    t = time.perf_counter()
    r = _orig_check(self, *a)
    STATS["solver_s"] += time.perf_counter() - t
    STATS["queries"] += 1
    if str(r) == "unknown":
        STATS["unknown"] += 1
    return r


z3.Solver.check = _check

TREE = {}
_orig_act = core.analyze_calltree


def _act(options, conditions):
    r = _orig_act(options, conditions)
    TREE["confirmed_paths"] = r.num_confirmed_paths
    TREE["status"] = str(r.verification_status)
    return r


core.analyze_calltree = _act

_orig_attempt = core.attempt_call


def _attempt(*a, **k):
    STATS["paths"] += 1
    return _orig_attempt(*a, **k)


core.attempt_call = _attempt

LAST_CEX = {}
_orig_mcm = core.make_counterexample_message


def _mcm(conditions, args, return_val=None):
    msg = _orig_mcm(conditions, args, return_val)
    try:
        with NoTracing():
            reprer = core.context_statespace().extra(core.LazyCreationRepr)
            real = reprer.deep_realize(args)
            LAST_CEX["args"] = dict(real.arguments)
    except Exception:
        LAST_CEX["args_error"] = traceback.format_exc()
    return msg


core.make_counterexample_message = _mcm


def jsonable(v):
    if isinstance(v, bytes):
        return {"__bytes__": v.hex()}
    if isinstance(v, bytearray):
        return {"__bytes__": bytes(v).hex()}
    if isinstance(v, tuple):
        return {"__tuple__": [jsonable(x) for x in v]}
    if isinstance(v, list):
        return [jsonable(x) for x in v]
    if isinstance(v, dict):
        return {"__dict__": [[jsonable(k), jsonable(x)] for k, x in v.items()]}
    if isinstance(v, (int, str, bool, float)) or v is None:
        return v
    return {"__repr__": repr(v)}


def unjson(v):
    if isinstance(v, dict):
        if "__bytes__" in v:
            return bytes.fromhex(v["__bytes__"])
        if "__tuple__" in v:
            return tuple(unjson(x) for x in v["__tuple__"])
        if "__dict__" in v:
            return {unjson(k): unjson(x) for k, x in v["__dict__"]}
        raise ValueError("cannot rebuild %r" % (v,))
    if isinstance(v, list):
        return [unjson(x) for x in v]
    return v


def analyze(fn, timeout, per_path=None):
    LAST_CEX.clear()
    TREE.clear()
    for k in STATS:
        STATS[k] = 0 if k != "solver_s" else 0.0
    opts = AnalysisOptionSet(
        per_condition_timeout=float(timeout),
        per_path_timeout=float(per_path or max(30.0, timeout / 4.0)),
        report_all=True,
        max_uninteresting_iterations=10 ** 9,
        max_iterations=10 ** 9,
        analysis_kind=[AnalysisKind.PEP316],
    )
    t0 = time.perf_counter()
    msgs = core.run_checkables(core.analyze_function(fn, opts))
    wall = time.perf_counter() - t0
    out = dict(STATS)
    out["wall_s"] = round(wall, 3)
    out["solver_s"] = round(out["solver_s"], 3)
    out.update(TREE)
    states = [m.state for m in msgs]
    if any(s in (MessageType.POST_FAIL, MessageType.EXEC_ERR, MessageType.POST_ERR) for s in states):
        out["verdict"] = "refuted"
    elif states and all(s == MessageType.CONFIRMED for s in states):
        out["verdict"] = "confirmed"
    elif any(s == MessageType.PRE_UNSAT for s in states):
        out["verdict"] = "pre_unsat"
    elif any(s in (MessageType.SYNTAX_ERR, MessageType.IMPORT_ERR) for s in states):
        out["verdict"] = "harness_error"
    else:
        out["verdict"] = "unknown"
    out["messages"] = [dict(state=m.state.name, message=m.message[:2000], line=m.line) for m in msgs]
    if out["verdict"] == "refuted":
        if "args" in LAST_CEX:
            out["cex"] = {k: jsonable(v) for k, v in LAST_CEX["args"].items()}
        else:
            out["cex_error"] = LAST_CEX.get("args_error", "no counterexample captured")
    return out


def make_twin(h):
    def twin(*a, **k):
        """
        post: _
        """
        rt.reset()
        try:
            h(*a, **k)
        except Exception:
            pass
        return not rt.REACHED
    twin.__signature__ = inspect.signature(h)
    twin.__annotations__ = dict(getattr(h, "__annotations__", {}))
    twin.__name__ = "twin_" + h.__name__
    twin.__qualname__ = twin.__name__
    return twin


def load_exclusions(modname, cond):
    """Regions of *open* listed findings that apply to this condition (never learnt at run time)."""
    import fnmatch
    path = os.path.join(os.path.dirname(os.path.dirname(os.path.abspath(__file__))), "known_findings.json")
    if not os.path.exists(path):
        return []
    with open(path) as f:
        known = json.load(f)["findings"]
    out = []
    for f_ in known:
        if f_.get("status") != "open" or not f_.get("region"):
            continue
        if f_.get("module") != modname:
            continue
        if fnmatch.fnmatch(cond.name, f_.get("match", "*")):
            out.append(f_["region"])
    return out


def with_exclusions(h, regions, extra_env=None):
    if not regions:
        return h
    sig = inspect.signature(h)
    codes = [compile(r, "<known-finding region>", "eval") for r in regions]
    genv = {"len": len, "ord": ord, "any": any, "all": all}
    genv.update(extra_env or {})

    def hx(*a, **k):
        """
        post: _
        """
        # The harness runs first; a listed region is consulted only on a failing path, so
        # the exclusion never perturbs the exploration of the paths that hold.
        try:
            if h(*a, **k):
                return True
        except Exception:
            bound = dict(sig.bind(*a, **k).arguments)
            for c in codes:
                if eval(c, genv, bound):
                    return True
            raise
        bound = dict(sig.bind(*a, **k).arguments)
        for c in codes:
            if eval(c, genv, bound):
                return True
        return False
    hx.__signature__ = sig
    hx.__annotations__ = dict(getattr(h, "__annotations__", {}))
    hx.__name__ = h.__name__
    hx.__qualname__ = h.__name__
    return hx


def concrete_call(h, args):
    """Run the harness in plain CPython (no tracing). -> (ok, detail)."""
    rt.reset()
    try:
        r = h(**args)
    except Exception as e:
        return False, "%s: %s" % (type(e).__name__, str(e)[:500])
    return bool(r), "returned %r" % (r,)


def profile_functions(h, args):
    seen = set()
    repo = os.path.realpath(rt.REPO)

    def prof(frame, event, arg):
        if event == "call":
            co = frame.f_code
            fn = co.co_filename
            if fn.startswith(repo):
                mod = fn[len(repo) + 1:-3].replace("/", ".")
                seen.add(mod + ":" + getattr(co, "co_qualname", co.co_name))
    sys.setprofile(prof)
    try:
        try:
            h(**args)
        except Exception:
            pass
    finally:
        sys.setprofile(None)
    return sorted(seen)


def load_condition(modname, tier, name):
    import importlib
    mod = importlib.import_module(modname)
    for c in mod.conditions(tier):
        if c.name == name:
            return mod, c
    raise KeyError("no condition %s in %s (%s)" % (name, modname, tier))


def build(mod, cond):
    return getattr(mod, cond.factory)(**cond.kwargs)


def main(argv):
    modname, tier, name = argv[0], argv[1], argv[2]
    timeout = None
    exclude = None
    if "--timeout" in argv:
        timeout = float(argv[argv.index("--timeout") + 1])
    random.seed(int(os.environ.get("VERIF_SEED", "0") or 0))
    res = {"name": name, "module": modname, "tier": tier}
    try:
        rt.check_repo()
        mod, cond = load_condition(modname, tier, name)
        res.update(cond.to_json())
        if timeout is None:
            timeout = cond.timeout
        h = build(mod, cond)
        # 1. reachability twin
        if cond.expect_twin:
            tw = analyze(make_twin(h), min(cond.twin_timeout, timeout))
            res["twin"] = {k: tw.get(k) for k in ("verdict", "paths", "wall_s", "cex")}
            if tw["verdict"] == "refuted" and "cex" in tw:
                wargs = {k: unjson(v) for k, v in tw["cex"].items()}
                ok, detail = concrete_call(h, wargs)
                res["twin"]["concrete_reached"] = bool(rt.REACHED)
                res["functions_encoded"] = profile_functions(h, wargs)
            res["twin_ok"] = tw["verdict"] == "refuted" and res["twin"].get("concrete_reached", False)
        else:
            res["twin_ok"] = None
        # 2. the condition itself
        regions = load_exclusions(modname, cond)
        res["excluded_regions"] = regions
        main_r = analyze(with_exclusions(h, regions, getattr(mod, "REGION_ENV", None)), timeout)
        res.update({k: main_r[k] for k in main_r if k != "cex"})
        if main_r["verdict"] == "refuted":
            if "cex" in main_r:
                res["cex"] = main_r["cex"]
                args = {k: unjson(v) for k, v in main_r["cex"].items()}
                ok, detail = concrete_call(h, args)
                res["replay_reproduced"] = (not ok)
                res["replay_detail"] = detail
            else:
                res["replay_reproduced"] = False
                res["replay_detail"] = "counterexample arguments not captured"
    except BaseException as e:  # machinery failure, reported as such
        res["verdict"] = "harness_error"
        res["error"] = "".join(traceback.format_exception(type(e), e, e.__traceback__))[-4000:]
    sys.stdout.write("\nKVRESULT " + json.dumps(res) + "\n")
    sys.stdout.flush()


if __name__ == "__main__":
    main(sys.argv[1:])
