"""Environment stubs for session-level harnesses (C12, C17, C02 session answers, C20).

Everything of PyKMIP's that the session executes stays real (``_handle_message_loop``,
``authenticate``, ``_receive_request``, ``_receive_bytes``, ``_send_response``, the auth helper
functions, the SLUGS connector, the request parser, the engine); the *environment* is replaced:

 * FakeConnection - a byte stream handed out in chunks of arbitrary sizes (``recv`` may return
   fewer bytes than asked, exactly like a socket), a sink for ``sendall``, a peer-certificate
   token;
 * FakeCert - duck-typed ``cryptography.x509.Certificate`` exposing exactly the two things the
   auth helpers read (subject common names, the extendedKeyUsage extension);
 * the DER loader (a C/Rust boundary) maps the token to the FakeCert;
 * FakeHTTP - ``requests.get`` for the SLUGS connector with a scripted outcome per call;
 * binascii.hexlify -> b'' (DEBUG records are not the subject; formatting every byte of a
   symbolic buffer realises it), loggers -> NullLogger.
"""
import types

from kv import rt  # noqa: F401
from kv.stubs import NullLogger, NoTracing

from cryptography import x509 as real_x509

from kmip.services.server import session as session_mod
from kmip.services.server.auth import utils as auth_utils
from kmip.services.server.auth import slugs as slugs_mod

CLIENT_AUTH = real_x509.oid.ExtendedKeyUsageOID.CLIENT_AUTH
SERVER_AUTH = real_x509.oid.ExtendedKeyUsageOID.SERVER_AUTH
COMMON_NAME = real_x509.oid.NameOID.COMMON_NAME
EKU_OID = real_x509.oid.ExtensionOID.EXTENDED_KEY_USAGE


class _Subject(object):
    def __init__(self, cns):
        self.cns = cns

    def get_attributes_for_oid(self, oid):
        if oid == COMMON_NAME:
            return [types.SimpleNamespace(value=c) for c in self.cns]
        return []


class _Extensions(object):
    def __init__(self, eku):
        self.eku = eku

    def get_extension_for_oid(self, oid):
        if oid == EKU_OID and self.eku is not None:
            return types.SimpleNamespace(value=list(self.eku))
        raise real_x509.ExtensionNotFound("No extension found", oid)


class FakeCert(object):
    """cns: list of common-name strings; eku: None (extension absent) or a list of OIDs."""

    def __init__(self, cns, eku):
        self.subject = _Subject(list(cns))
        self.extensions = _Extensions(eku)


class FakeConnection(object):
    def __init__(self, stream, chunks=(), cert=None):
        self.stream = stream
        self.pos = 0
        self.chunks = list(chunks)
        self.nrecv = 0
        self.sent = []
        self.cert = cert
        self.recv_sizes = []

    def recv(self, n):
        self.recv_sizes.append(n)
        left = len(self.stream) - self.pos
        if left <= 0:
            return b""                      # orderly shutdown by the peer
        m = n if n < left else left
        if self.nrecv < len(self.chunks):
            c = self.chunks[self.nrecv]
            if c < m:
                m = c
        self.nrecv += 1
        out = self.stream[self.pos:self.pos + m]
        self.pos += m
        return out

    def sendall(self, data):
        self.sent.append(data)

    def cipher(self):
        return ("ECDHE-RSA-AES256-GCM-SHA384", "TLSv1.2", 256)

    def shared_ciphers(self):
        return None

    def getpeercert(self, binary_form=False):
        return b"DER" if self.cert is not None else None


_CURRENT_CERT = [None]


def _load_der(data, backend=None):
    return _CURRENT_CERT[0]


def install():
    """Replace the C boundaries inside the session/auth modules (idempotent)."""
    session_mod.binascii = types.SimpleNamespace(hexlify=lambda b: b"")
    ns = types.SimpleNamespace(load_der_x509_certificate=_load_der, oid=real_x509.oid,
                               ExtensionNotFound=real_x509.ExtensionNotFound)
    auth_utils.x509 = ns


def mk_session(engine, conn, tls_auth=True, auth_settings=None):
    install()
    with NoTracing():
        s = session_mod.KmipSession.__new__(session_mod.KmipSession)
        s._logger = NullLogger()
        s._engine = engine
        s._address = ("127.0.0.1", 5696)
        s._session_time = 1500000000.0
        s._max_buffer_size = 4096
        s._max_request_size = 1048576
        s._max_response_size = 1048576
    s._connection = conn
    s._enable_tls_client_auth = tls_auth
    s._auth_settings = [] if auth_settings is None else auth_settings
    _CURRENT_CERT[0] = conn.cert
    return s


class FakeResponse(object):
    def __init__(self, status_code, body):
        self.status_code = status_code
        self.body = body

    def json(self):
        if self.body is None:
            raise ValueError("No JSON object could be decoded")
        return self.body


class FakeHTTP(object):
    """requests.get for the SLUGS connector: outcomes[i] decides the i-th call.
    outcome: 'down' (raises), 404, ('ok', body) with body a dict or None (not JSON)."""

    def __init__(self, outcomes):
        self.outcomes = list(outcomes)
        self.calls = []

    def get(self, url, timeout=None):
        i = len(self.calls)
        self.calls.append(url)
        o = self.outcomes[i] if i < len(self.outcomes) else "down"
        if o == "down":
            raise ConnectionError("SLUGS unreachable")
        if o == 404:
            return FakeResponse(404, None)
        return FakeResponse(200, o[1])


def install_http(http):
    slugs_mod.requests = types.SimpleNamespace(get=http.get)
