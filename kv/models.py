"""CrossHair plugin: sharper models of the C boundaries PyKMIP touches (DESIGN.md 1.1).

Must be imported *after* ``crosshair.core_and_libs`` (registrations happen there).
Every model here is part of the trusted base and is validated by kv.selftest.

1. int.to_bytes on a symbolic int: fresh byte variables with a *linear* constraint
   (the stock model emits (v / 256^i) % 256, on which z3 answers unknown at 64 bit).
2. struct.pack: '!c' passes a 1-byte symbolic bytes through (stock realises it);
   symbolic bools are turned into ints before packing (stock crashes); non-int
   arguments to integer formats raise struct.error as CPython does.
3. os.urandom(n): fresh symbolic bytes of length n (nondeterministic stub).
"""
import os
import struct

import crosshair.core_and_libs  # noqa: F401  (must precede the patches below)
import z3
from crosshair import core
from crosshair.libimpl import builtinslib as B
from crosshair.libimpl import structlib as S
from crosshair.statespace import context_statespace
from crosshair.tracers import NoTracing, ResumedTracing

_MISSING = B._MISSING if hasattr(B, "_MISSING") else object()


def _to_bytes(self, length=1, byteorder="big", *, signed=False):
    length = core.realize(length)
    byteorder = core.realize(byteorder)
    signed = core.realize(signed)
    if not isinstance(length, int):
        raise TypeError
    if byteorder not in ("big", "little"):
        raise ValueError("byteorder must be either 'little' or 'big'")
    if signed:
        half = (256 ** length) >> 1
        if self < -half or self >= half:
            raise OverflowError("int too big to convert")
        if self < 0:
            self = 256 ** length + self
    else:
        if self < 0:
            raise OverflowError("can't convert negative int to unsigned")
        if self >= 256 ** length:
            raise OverflowError("int too big to convert")
    with NoTracing():
        space = context_statespace()
        if isinstance(self, B.SymbolicInt):
            var = self.var
        else:
            var = z3.IntVal(int(self))
        u = space.uniq()
        bs = [z3.Int("tb%s_%d" % (u, i)) for i in range(length)]
        for b in bs:
            space.add(z3.And(b >= 0, b <= 255))
        if bs:
            space.add(var == z3.Sum([b * (256 ** i) for i, b in enumerate(bs)]))
        arr = [B.SymbolicInt(b) for b in bs]
        if byteorder == "big":
            arr.reverse()
        return B.SymbolicBytes(arr)


B.SymbolicInt.to_bytes = _to_bytes

_orig_pack = S._pack


def _pack(fmt, *args):
    with NoTracing():
        f = core.deep_realize(fmt)
        if isinstance(f, bytes):
            f = f.decode("latin-1")
        one_char = (
            f in ("!c", "c", ">c", "<c", "=c")
            and len(args) == 1
            and isinstance(args[0], B.SymbolicBytes)
        )
        bools = [type(a) is B.SymbolicBool for a in args]
        int_only = all(ch in "!<>=@bBhHiIlLqQ" for ch in f)
    if one_char:
        if len(args[0]) != 1:
            raise struct.error("char format requires a bytes object of length 1")
        return args[0]
    if any(bools):
        args = tuple((a + 0) if isb else a for a, isb in zip(args, bools))
    if int_only:
        for a in args:
            if not isinstance(a, int):
                raise struct.error("required argument is not an integer")
    return _orig_pack(fmt, *args)


core._PATCH_REGISTRATIONS[struct.pack] = _pack


def _urandom(n):
    n = core.realize(n)
    if n < 0:
        raise ValueError("negative argument not allowed")
    with NoTracing():
        space = context_statespace()
        u = space.uniq()
        bs = [z3.Int("ur%s_%d" % (u, i)) for i in range(n)]
        for b in bs:
            space.add(z3.And(b >= 0, b <= 255))
        return B.SymbolicBytes([B.SymbolicInt(b) for b in bs])


core.register_patch(os.urandom, _urandom)

# 4. weakref.ref.__call__: CrossHair's stock patch runs gc.collect() on every dereference to make
#    dead references deterministic (29 ms each; SQLAlchemy dereferences instance-state weakrefs
#    hundreds of times per path).  Harness objects are strongly held for the whole path, so the
#    plain dereference is deterministic here.
import weakref  # noqa: E402


def _ref_call(r):
    if not isinstance(r, weakref.ref):
        raise TypeError
    return r()


core._PATCH_REGISTRATIONS[weakref.ref.__call__] = _ref_call

# 5. format(symbolic int, "" | "d"): the stock model realises the value (one path per value, so
#    a rejected version number or a length in an error/debug text can never be exhausted); the
#    decimal rendering of CrossHair's own SymbolicInt.__repr__ (forks once per digit count) is
#    used instead.
_orig_format = B._format


def _format(obj, format_spec=""):
    with NoTracing():
        is_int = isinstance(obj, B.SymbolicInt)
        spec = core.realize(format_spec)
        # an ordinary object without a __format__ of its own: object.__format__(x, "") is str(x).
        # The stock model deep-realises the object first (every symbolic field, one path per
        # value); calling its own __str__ under tracing keeps the fields symbolic.
        plain = (not is_int and not isinstance(obj, B.CrossHairValue)
                 and type(obj).__format__ is object.__format__
                 and (type(obj).__str__ is not object.__str__ or type(obj).__repr__ is not object.__repr__))
    if is_int and spec in ("", "d"):
        return obj.__repr__()
    if plain and spec == "":
        return str(obj)
    return _orig_format(obj, format_spec)


core._PATCH_REGISTRATIONS[format] = _format

MODELS = [
    "format(symbolic int, ''|'d') = symbolic decimal string (CrossHair's SymbolicInt.__repr__), not realised",
    "weakref.ref(): plain dereference without the stock model's gc.collect()",
    "int.to_bytes(symbolic): fresh bytes b_i in [0,255], v (+2^{8n} if negative) = sum b_i*256^i",
    "struct.pack('!c', symbolic 1-byte bytes) pass-through; symbolic bool -> int before pack",
    "os.urandom(n): n fresh symbolic bytes",
]
