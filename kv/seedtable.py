"""Collect the results of kv/seedsweep.sh runs into seeded/RESULTS.md and the seeds' meta.json.
usage: python -m kv.seedtable <sweep log> ..."""
import json
import os
import re
import sys

HERE = os.path.dirname(os.path.dirname(os.path.abspath(__file__)))


def main(logs):
    res = {}
    for path in logs:
        if not os.path.exists(path):
            continue
        for line in open(path):
            m = re.match(r"(C\d\d-\d) (C\d\d) MUTANT .* exit (\d+) => (\w+)", line.strip())
            if m:
                res.setdefault(m.group(1), {})[m.group(2)] = (m.group(4), int(m.group(3)))
    rows = []
    for seed in sorted(os.listdir(os.path.join(HERE, "seeded"))):
        mp = os.path.join(HERE, "seeded", seed, "meta.json")
        if not os.path.exists(mp):
            continue
        meta = json.load(open(mp))
        r = res.get(seed, {})
        meta["checks_run"] = {p: {"verdict": v, "exit": rc} for p, (v, rc) in sorted(r.items())}
        meta["detected_by"] = sorted(p for p, (v, rc) in r.items() if v == "DETECTED")
        json.dump(meta, open(mp, "w"), indent=1)
        own = seed[:3]
        rows.append((seed, own, r.get(own, ("not run", None))[0],
                     ", ".join("%s: %s" % (p, v) for p, (v, rc) in sorted(r.items()) if p != own),
                     (meta.get("summary") or "")[:150].replace("|", "/").replace("\n", " ")))
    out = ["# Seeded changes and the checks that catch them", "",
           "Each change was written by an independent sub-agent that saw only the property text and a scratch",
           "worktree; each was verified (demo passes on the clean tree, fails with the patch; the pinned suite",
           "still reports 3358 passed) with `kv/seedverify.sh`. The quick check of the seed's own property - and,",
           "where another property's check is the natural detector, that one too - was then run against a scratch",
           "copy of /repo with the patch applied (`kv/mutate.sh`, `kv/seedsweep.sh`): DETECTED = exit 1 with a",
           "replayed VIOLATION line.", "",
           "| seed | own property's check | other checks run | what the change does |", "|---|---|---|---|"]
    for row in rows:
        out.append("| %s | %s | %s | %s |" % (row[0], row[2], row[3] or "-", row[4]))
    n_own = sum(1 for r in rows if r[2] == "DETECTED")
    n_any = sum(1 for r in rows if r[2] == "DETECTED" or "DETECTED" in r[3])
    out += ["", "%d seeds; %d detected by their own property's quick check, %d by some check." % (len(rows), n_own, n_any)]
    open(os.path.join(HERE, "seeded", "RESULTS.md"), "w").write("\n".join(out) + "\n")
    print("\n".join(out[-1:]))


if __name__ == "__main__":
    main(sys.argv[1:])
