"""Independent TTLV reference encoder and well-formedness walker.

Written from the KMIP 1.1 specification section 9.1 text; pure integer arithmetic,
no ``struct``, no PyKMIP import.  Used as the oracle of C02 (differential) and as an
added assertion on every encoding the C01 structure harnesses produce.

  item   := tag(3 bytes, 0x42xxxx) type(1 byte) length(4 bytes, big endian) value pad
  types  := 1 Structure, 2 Integer, 3 Long Integer, 4 Big Integer, 5 Enumeration,
            6 Boolean, 7 Text String, 8 Byte String, 9 Date-Time, 10 Interval
  lengths: Integer/Enumeration/Interval 4 (+4 pad), Long/Boolean/Date-Time 8,
           Big Integer multiple of 8 (sign-extended), Text/Byte String n (+pad to 8)
"""

T_STRUCT, T_INT, T_LONG, T_BIG, T_ENUM, T_BOOL, T_TEXT, T_BYTES, T_DATE, T_INTERVAL = range(1, 11)


def be(n, width):
    """Big-endian bytes of a non-negative integer (list of ints)."""
    out = []
    for i in range(width):
        shift = 8 * (width - 1 - i)
        out.append((n // (1 << shift)) % 256)
    return out


def twos(n, width):
    if n < 0:
        n = n + (1 << (8 * width))
    return be(n, width)


def header(tag, typ, length):
    return be(tag, 3) + [typ] + be(length, 4)


def pad_to_8(n):
    r = n % 8
    return 0 if r == 0 else 8 - r


def enc_integer(tag, v):
    return bytes(header(tag, T_INT, 4) + twos(v, 4) + [0, 0, 0, 0])


def enc_long(tag, v):
    return bytes(header(tag, T_LONG, 8) + twos(v, 8))


def enc_datetime(tag, v):
    return bytes(header(tag, T_DATE, 8) + twos(v, 8))


def enc_enum(tag, v):
    return bytes(header(tag, T_ENUM, 4) + be(v, 4) + [0, 0, 0, 0])


def enc_interval(tag, v):
    return bytes(header(tag, T_INTERVAL, 4) + be(v, 4) + [0, 0, 0, 0])


def enc_bool(tag, v):
    return bytes(header(tag, T_BOOL, 8) + [0, 0, 0, 0, 0, 0, 0, 1 if v else 0])


def enc_bytes(tag, v):
    n = len(v)
    return bytes(header(tag, T_BYTES, n)) + bytes(v) + bytes(pad_to_8(n))


def enc_text(tag, s):
    raw = s.encode("utf-8")
    n = len(raw)
    return bytes(header(tag, T_TEXT, n)) + raw + bytes(pad_to_8(n))


def enc_big(tag, v):
    # smallest multiple of 8 bytes holding v in two's complement
    width = 8
    while not (-(1 << (8 * width - 1)) <= v < (1 << (8 * width - 1))):
        width += 8
    return bytes(header(tag, T_BIG, width) + twos(v, width))


FIXED_LEN = {T_INT: 4, T_LONG: 8, T_ENUM: 4, T_BOOL: 8, T_DATE: 8, T_INTERVAL: 4}


class Malformed(Exception):
    pass


def walk(buf, depth=0, max_depth=32):
    """Check that ``buf`` is a sequence of well-formed TTLV items. Returns a list of
    (tag, type, length, children-or-None).  Raises Malformed with the reason."""
    items = []
    i = 0
    n = len(buf)
    if depth > max_depth:
        raise Malformed("nesting too deep")
    while i < n:
        if n - i < 8:
            raise Malformed("truncated header at offset %d" % i)
        tag = buf[i] * 65536 + buf[i + 1] * 256 + buf[i + 2]
        typ = buf[i + 3]
        length = ((buf[i + 4] * 256 + buf[i + 5]) * 256 + buf[i + 6]) * 256 + buf[i + 7]
        if not (0x420000 <= tag <= 0x42FFFF or 0x540000 <= tag <= 0x54FFFF):
            raise Malformed("tag %06x outside 42xxxx/54xxxx at offset %d" % (tag, i))
        if not (1 <= typ <= 10):
            raise Malformed("type %d at offset %d" % (typ, i))
        if typ in FIXED_LEN and length != FIXED_LEN[typ]:
            raise Malformed("type %d must have length %d, has %d" % (typ, FIXED_LEN[typ], length))
        if typ == T_BIG and length % 8 != 0:
            raise Malformed("big integer length %d" % length)
        if typ == T_STRUCT and length % 8 != 0:
            raise Malformed("structure length %d not a multiple of 8" % length)
        padded = length + pad_to_8(length)
        if i + 8 + padded > n:
            raise Malformed("item at offset %d overruns buffer (%d > %d)" % (i, i + 8 + padded, n))
        body = buf[i + 8:i + 8 + length]
        pad = buf[i + 8 + length:i + 8 + padded]
        for p in pad:
            if p != 0:
                raise Malformed("non-zero padding at offset %d" % i)
        children = None
        if typ == T_STRUCT:
            children = walk(body, depth + 1, max_depth)
        elif typ == T_BOOL:
            if list(body[:7]) != [0] * 7 or body[7] not in (0, 1):
                raise Malformed("boolean value at offset %d" % i)
        items.append((tag, typ, length, children))
        i += 8 + padded
    return items


def well_formed_message(buf):
    """A whole emitted message: exactly one top-level item, total multiple of 8."""
    if len(buf) % 8 != 0:
        raise Malformed("total length %d not a multiple of 8" % len(buf))
    items = walk(buf)
    if len(items) != 1:
        raise Malformed("%d top-level items" % len(items))
    return items[0]


def tags_in(items):
    out = []
    for tag, typ, length, ch in items:
        out.append(tag)
        if ch:
            out.extend(tags_in(ch))
    return out


def leaf_values(buf, out=None):
    """tag -> list of decoded values of the fixed-size leaves (in encounter order)."""
    if out is None:
        out = {}
    i = 0
    n = len(buf)
    while i + 8 <= n:
        tag = buf[i] * 65536 + buf[i + 1] * 256 + buf[i + 2]
        typ = buf[i + 3]
        length = ((buf[i + 4] * 256 + buf[i + 5]) * 256 + buf[i + 6]) * 256 + buf[i + 7]
        body = buf[i + 8:i + 8 + length]
        if typ == T_STRUCT:
            leaf_values(body, out)
        elif typ in FIXED_LEN:
            v = 0
            for b in body:
                v = v * 256 + b
            if len(body) and typ in (T_INT, T_LONG, T_DATE) and body[0] >= 128:
                v -= 1 << (8 * len(body))
            out.setdefault(tag, []).append(v if len(body) else None)
        else:
            out.setdefault(tag, []).append(bytes(body))
        i += 8 + length + pad_to_8(length)
    return out


def structurally_sound(buf):
    """Only the nesting arithmetic: every item lies inside its parent (or the buffer), a structure's
    children tile its declared length exactly, item sizes are padded to 8.  Nothing about tags, types
    beyond 'structure or not', values or padding bytes - a decoder may be lenient about those, but a
    message failing this test has no consistent reading at all."""
    def walk_(lo, hi, depth):
        i = lo
        while i < hi:
            if hi - i < 8 or depth > 40:
                return False
            typ = buf[i + 3]
            length = ((buf[i + 4] * 256 + buf[i + 5]) * 256 + buf[i + 6]) * 256 + buf[i + 7]
            padded = length + pad_to_8(length)
            if i + 8 + padded > hi:
                return False
            if typ == T_STRUCT:
                if length % 8 != 0 or not walk_(i + 8, i + 8 + length, depth + 1):
                    return False
            i += 8 + padded
        return i == hi
    return walk_(0, len(buf), 0)


def structural_defect(buf):
    """None when structurally_sound; otherwise the kind of the first item (in reading order) whose
    extent is inconsistent with its parent: 'structure' or 'primitive'."""
    found = []

    def walk_(lo, hi, depth):
        i = lo
        while i < hi:
            if hi - i < 8 or depth > 40:
                found.append("structure")          # the parent's length leaves a fragment
                return False
            typ = buf[i + 3]
            length = ((buf[i + 4] * 256 + buf[i + 5]) * 256 + buf[i + 6]) * 256 + buf[i + 7]
            padded = length + pad_to_8(length)
            if i + 8 + padded > hi:
                found.append("structure" if typ == T_STRUCT else "primitive")
                return False
            if typ == T_STRUCT:
                if length % 8 != 0:
                    found.append("structure")
                    return False
                if not walk_(i + 8, i + 8 + length, depth + 1):
                    return False
            i += 8 + padded
        return True
    walk_(0, len(buf), 0)
    return found[0] if found else None


def top_children_tags(buf):
    """Tags of the direct children of the first (top-level) item, by length arithmetic only (no
    validation of tags, types or padding: the caller has already established structural soundness)."""
    out = []
    if len(buf) < 8:
        return out
    length = ((buf[4] * 256 + buf[5]) * 256 + buf[6]) * 256 + buf[7]
    i, hi = 8, min(8 + length, len(buf))
    while i + 8 <= hi:
        out.append(buf[i] * 65536 + buf[i + 1] * 256 + buf[i + 2])
        ln = ((buf[i + 4] * 256 + buf[i + 5]) * 256 + buf[i + 6]) * 256 + buf[i + 7]
        i += 8 + ln + pad_to_8(ln)
    return out
