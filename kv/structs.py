"""Shape discovery for PyKMIP's structure classes (C01 family 3, C02 part B, C16 part 5).

For a class ``C`` whose constructor keyword arguments all default to None, ``discover(C)`` finds -
concretely, outside tracing, against /repo's current tree - for every keyword a *kind* of value the
class accepts, such that the fully populated instance encodes and decodes under some KMIP version:

    bool / int / str / bytes / list of those          -> python leaves (made symbolic by the harness)
    enum:<EnumClass> / list                           -> enumeration member (3 representatives)
    obj:<module.Class> / list                         -> nested structure (discovered recursively)

Discovery only decides the *shape* of inputs; it is not an oracle.  A class whose shape cannot be
found is reported by name (outside the claim), never silently dropped.
"""
import enum as _enum
import inspect

from kv import rt  # noqa: F401

from kmip.core import attributes, enums, objects as cobjects, primitives, secrets, utils
from kmip.core import exceptions as kex
from kmip.core.messages import contents, messages, payloads

MODULES = [contents, attributes, cobjects, secrets, payloads, messages]
VERSIONS = [enums.KMIPVersion.KMIP_2_0, enums.KMIPVersion.KMIP_1_4, enums.KMIPVersion.KMIP_1_2,
            enums.KMIPVersion.KMIP_1_0]
ALL_VERSIONS = [enums.KMIPVersion.KMIP_1_0, enums.KMIPVersion.KMIP_1_1, enums.KMIPVersion.KMIP_1_2,
                enums.KMIPVersion.KMIP_1_3, enums.KMIPVersion.KMIP_1_4, enums.KMIPVersion.KMIP_2_0]

_ENUMS = [o for n, o in sorted(vars(enums).items())
          if isinstance(o, type) and issubclass(o, _enum.Enum) and o is not _enum.Enum and len(list(o)) > 0
          and all(type(m.value) is int for m in o)]


def qual(cls):
    return "%s.%s" % (cls.__module__.split(".")[-1], cls.__name__)


def all_classes():
    out = []
    for mod in MODULES:
        for name, cls in sorted(vars(mod).items()):
            if inspect.isclass(cls) and cls.__module__.startswith(mod.__name__) and hasattr(cls, "read") \
                    and hasattr(cls, "write") and cls not in out and cls.__name__ not in ("RequestPayload", "ResponsePayload"):
                out.append(cls)
    return out


def _kwargs_of(cls):
    try:
        sig = inspect.signature(cls.__init__)
    except (TypeError, ValueError):
        return None
    ps = list(sig.parameters.values())[1:]
    if any(p.kind in (p.VAR_POSITIONAL, p.VAR_KEYWORD) for p in ps):
        return None
    return [p.name for p in ps if p.default is None]


def enc(x, v):
    s = utils.BytearrayStream()
    x.write(s, kmip_version=v)
    return bytes(s.buffer)


def dec(cls, b, v, template=None):
    y = _blank(cls, template)
    y.read(utils.BytearrayStream(b), kmip_version=v)
    return y


def _blank(cls, template=None):
    """An empty instance to decode into (some classes need their tag / enum class to be told)."""
    if template is not None and hasattr(template, "tag") and "tag" in inspect.signature(cls.__init__).parameters:
        try:
            return cls(tag=template.tag)
        except Exception:
            pass
    return cls()


_CACHE = {}
_LEAVES = [("bytes", b"\x01\x02"), ("str", "x"), ("int", 5), ("bool", True),
           ("list:str", ["x"]), ("list:int", [5]), ("list:bytes", [b"\x01"])]


class Spec(object):
    def __init__(self, cls, fields, versions, missing=()):
        self.cls = cls
        self.fields = fields          # [(kwarg, kind)]
        self.versions = versions      # KMIP versions under which the full instance round-trips
        self.missing = list(missing)  # keywords for which no acceptable value kind was found

    def __repr__(self):
        return "Spec(%s: %s)" % (qual(self.cls), self.fields)


def _roundtrips(cls, inst, v):
    b = enc(inst, v)
    y = dec(cls, b, v, inst)
    return enc(y, v) == b and len(b) > 8


def _base_candidates():
    out = list(_LEAVES)
    for e in _ENUMS:
        out.append(("enum:" + e.__name__, list(e)[0]))
    for e in _ENUMS:
        out.append(("list:enum:" + e.__name__, [list(e)[0]]))
    return out


def _object_candidates():
    out = []
    for cls, sp in list(_CACHE.items()):
        if sp is None or cls in (messages.RequestMessage, messages.ResponseMessage):
            continue
        try:
            build(sp, None)
        except Exception:
            continue
        # factories: a fresh instance per use (some writers mutate nested objects in place)
        out.append(("obj:" + qual(cls), _Fresh(sp, False)))
        out.append(("list:obj:" + qual(cls), _Fresh(sp, True)))
    return out


class _Fresh(object):
    def __init__(self, sp, as_list):
        self.sp = sp
        self.as_list = as_list

    def __call__(self):
        inst = build(self.sp, None)
        return [inst] if self.as_list else inst


def _val(v):
    return v() if isinstance(v, _Fresh) else v


def _discover_with(cls, cands):
    kws = _kwargs_of(cls)
    if kws is None:
        return None
    try:
        cls()
    except Exception:
        return None
    accepted = {}
    for k in kws:
        acc = []
        for kind, v in cands:
            try:
                cls(**{k: _val(v)})
            except Exception:
                continue
            acc.append((kind, v))
        accepted[k] = acc

    def single_score(k, v):
        best = 0
        for ver in VERSIONS:
            try:
                inst = cls(**{k: _val(v)})
                b = enc(inst, ver)
                best = max(best, 1)
                y = dec(cls, b, ver, inst)
                if enc(y, ver) == b and len(b) > 8:
                    return 2
            except Exception:
                continue
        return best
    choice = {}
    for k in kws:
        if not accepted[k]:
            continue
        if len(accepted[k]) == 1:
            choice[k] = 0
            continue
        scored = [(single_score(k, v), -i) for i, (kind, v) in enumerate(accepted[k][:60])]
        choice[k] = -max(scored)[1]

    def ok_versions():
        out = []
        for v in VERSIONS:
            try:
                if _roundtrips(cls, cls(**{k: _val(accepted[k][choice[k]][1]) for k in choice}), v):
                    out.append(v)
            except Exception:
                pass
        return out
    vs = ok_versions()
    dropped = []
    while not vs and choice:
        # drop the keyword whose removal repairs the instance; failing that, the last one
        fixed = False
        for k in list(choice):
            saved = choice.pop(k)
            vs = ok_versions()
            if vs:
                dropped.append(k)
                fixed = True
                break
            choice[k] = saved
        if not fixed:
            k = list(choice)[-1]
            choice.pop(k)
            dropped.append(k)
            vs = ok_versions()
    if not vs or not choice:
        return None
    missing = [k for k in kws if k not in choice]
    return Spec(cls, [(k, accepted[k][choice[k]][0]) for k in kws if k in choice], vs, missing)


def discover_all(rounds=3):
    """Fixed point: round 0 uses python leaves and enumeration members only; each later round also
    offers instances of every class discovered so far, and retries the classes that are still
    incomplete (a keyword without an acceptable value)."""
    classes = all_classes()
    base = _base_candidates()
    install_manual()
    for rnd in range(rounds):
        cands = base + (_object_candidates() if rnd else [])
        progress = False
        for c in classes:
            cur = _CACHE.get(c)
            if cur is not None and (not cur.missing or isinstance(cur, ManualSpec)):
                continue
            sp = _discover_with(c, cands)
            if sp is not None and (cur is None or len(sp.fields) > len(cur.fields)):
                _CACHE[c] = sp
                progress = True
            elif c not in _CACHE:
                _CACHE[c] = None
        if rnd and not progress:
            break
    return {c: _CACHE.get(c) for c in classes}


def discover(cls, depth=0):
    if cls not in _CACHE:
        load_or_discover()
    return _CACHE.get(cls)


def _source_hash():
    import hashlib
    import os
    h = hashlib.sha1()
    root = os.path.join(rt.REPO, "kmip", "core")
    for d, _, files in sorted(os.walk(root)):
        if "tests" in d:
            continue
        for f in sorted(files):
            if f.endswith(".py"):
                with open(os.path.join(d, f), "rb") as fh:
                    h.update(fh.read())
    with open(__file__, "rb") as fh:
        h.update(fh.read())
    return h.hexdigest()[:16]


def load_or_discover():
    """Shapes are a function of /repo's kmip/core sources: computed once per source state and
    shared between the worker processes through a content-addressed file under /verif/work."""
    import fcntl
    import json
    import os
    work = os.path.join(os.path.dirname(os.path.dirname(os.path.abspath(__file__))), "work")
    os.makedirs(work, exist_ok=True)
    path = os.path.join(work, "structs-%s.json" % _source_hash())
    by_name = {qual(c): c for c in all_classes()}
    with open(path + ".lock", "w") as lk:
        fcntl.flock(lk, fcntl.LOCK_EX)
        if os.path.exists(path):
            with open(path) as f:
                data = json.load(f)
            install_manual()
            for name, rec in data.items():
                c = by_name.get(name)
                if c is None or name in MANUAL:
                    continue
                _CACHE[c] = None if rec is None else Spec(
                    c, [tuple(x) for x in rec["fields"]], [enums.KMIPVersion[v] for v in rec["versions"]], rec["missing"])
            return
        d = discover_all()
        data = {}
        for c, sp in d.items():
            if isinstance(sp, ManualSpec):
                continue
            data[qual(c)] = None if sp is None else dict(fields=[list(x) for x in sp.fields],
                                                         versions=[v.name for v in sp.versions], missing=sp.missing)
        tmp = path + ".tmp"
        with open(tmp, "w") as f:
            json.dump(data, f)
        os.replace(tmp, path)


def _resolve(qualname):
    mod, name = qualname.split(".")
    for m in MODULES:
        if m.__name__.split(".")[-1] == mod:
            return getattr(m, name)
    return _resolve_any(qualname)


def _resolve_any(qualname):
    """qualified names of payload classes use their defining module (encrypt.EncryptRequestPayload)"""
    for c in all_classes():
        if qual(c) == qualname:
            return c
    raise KeyError(qualname)


class Pool(object):
    """Hands out leaf values: concrete defaults, or the harness's symbolic variables (each used once;
    when a kind runs out the remaining leaves of that kind are concrete)."""

    def __init__(self, ints=(), strs=(), bytess=(), bools=(), enums_=()):
        self.v = {"int": list(ints), "str": list(strs), "bytes": list(bytess), "bool": list(bools), "enum": list(enums_)}
        self.used = {"int": 0, "str": 0, "bytes": 0, "bool": 0, "enum": 0}

    def take(self, kind, default):
        if self.v[kind]:
            self.used[kind] += 1
            return self.v[kind].pop(0)
        return default


def _leaf(kind, pool):
    if kind == "bool":
        return pool.take("bool", True) if pool else True
    if kind == "int":
        return pool.take("int", 5) if pool else 5
    if kind == "str":
        return pool.take("str", "x") if pool else "x"
    if kind == "bytes":
        return pool.take("bytes", b"\x01\x02") if pool else b"\x01\x02"
    if kind.startswith("enum:"):
        e = getattr(enums, kind[5:])
        ms = list(e)
        reps = [ms[0], ms[len(ms) // 2], ms[-1]]
        if pool:
            sel = pool.take("enum", 0)
            for i in range(3):
                if sel == i:
                    return reps[i]
        return reps[0]
    if kind.startswith("obj:"):
        sp = _CACHE.get(_resolve(kind[4:]))
        return build(sp, pool)
    raise ValueError(kind)


def value_of(kind, pool):
    if kind.startswith("list:"):
        return [_leaf(kind[5:], pool)]
    return _leaf(kind, pool)


def build(spec, pool, present=None):
    if isinstance(spec, ManualSpec):
        return spec.builder(pool, present)
    kw = {}
    for i, (k, kind) in enumerate(spec.fields):
        if present is not None and not present[i]:
            continue
        kw[k] = value_of(kind, pool)
    return spec.cls(**kw)


CURRENT = [1, 2]       # protocol version the message headers name (set by the harness to the encoding version)
PV = {enums.KMIPVersion.KMIP_1_0: (1, 0), enums.KMIPVersion.KMIP_1_1: (1, 1), enums.KMIPVersion.KMIP_1_2: (1, 2),
      enums.KMIPVersion.KMIP_1_3: (1, 3), enums.KMIPVersion.KMIP_1_4: (1, 4), enums.KMIPVersion.KMIP_2_0: (2, 0)}


# ---- hand-written builders for the classes whose inputs are themselves protocol objects of a specific
# make (attribute values chosen by name, key blocks, payloads matching the operation) -----------------

def _name(pool):
    return attributes.Name.create(pool.take("str", "n") if pool else "n", enums.NameType.UNINTERPRETED_TEXT_STRING)


def _attribute(pool, which=0):
    from kmip.core.factories import attributes as af
    F = af.AttributeFactory()
    A = enums.AttributeType
    if which == 0:
        return F.create_attribute(A.NAME, _name(pool), pool.take("int", 0) if pool else 0)
    if which == 1:
        return F.create_attribute(A.CRYPTOGRAPHIC_LENGTH, pool.take("int", 128) if pool else 128)
    if which == 2:
        return F.create_attribute(A.OBJECT_GROUP, pool.take("str", "g") if pool else "g")
    return F.create_attribute(A.CRYPTOGRAPHIC_ALGORITHM, enums.CryptographicAlgorithm.AES)


def _template(pool, cls=None, present=None):
    cls = cls or cobjects.TemplateAttribute
    n = 4
    pr = present if present is not None else [True] * n
    attrs = [_attribute(pool, i) for i in range(n) if pr[i]]
    return cls(attributes=attrs)


def _key_block(pool, present=None):
    pr = present if present is not None else [True] * 3
    kwd = None
    if pr[2]:
        kwd = cobjects.KeyWrappingData(
            wrapping_method=enums.WrappingMethod.ENCRYPT,
            encryption_key_information=cobjects.EncryptionKeyInformation(
                unique_identifier=pool.take("str", "w") if pool else "w"),
            encoding_option=enums.EncodingOption.NO_ENCODING)
    return cobjects.KeyBlock(
        key_format_type=cobjects.KeyFormatType(enums.KeyFormatType.RAW),
        key_value=cobjects.KeyValue(key_material=cobjects.KeyMaterial(pool.take("bytes", b"\x01\x02") if pool else b"\x01\x02")),
        cryptographic_algorithm=attributes.CryptographicAlgorithm(enums.CryptographicAlgorithm.AES) if pr[0] else None,
        cryptographic_length=attributes.CryptographicLength(pool.take("int", 128) if pool else 128) if pr[1] else None,
        key_wrapping_data=kwd)


def _authentication(pool):
    cred = cobjects.Credential(
        credential_type=enums.CredentialType.USERNAME_AND_PASSWORD,
        credential_value=cobjects.UsernamePasswordCredential(username=pool.take("str", "u") if pool else "u",
                                                             password=pool.take("str", "p") if pool else "p"))
    return contents.Authentication(credentials=[cred])


def _request_header(pool, present=None):
    pr = present if present is not None else [True] * 6
    return messages.RequestHeader(
        protocol_version=contents.ProtocolVersion(CURRENT[0], CURRENT[1]),
        maximum_response_size=contents.MaximumResponseSize(pool.take("int", 256) if pool else 256) if pr[0] else None,
        asynchronous_indicator=contents.AsynchronousIndicator(pool.take("bool", False) if pool else False) if pr[1] else None,
        authentication=_authentication(pool) if pr[2] else None,
        batch_error_cont_option=contents.BatchErrorContinuationOption(enums.BatchErrorContinuationOption.STOP) if pr[3] else None,
        batch_order_option=contents.BatchOrderOption(pool.take("bool", True) if pool else True) if pr[4] else None,
        time_stamp=contents.TimeStamp(pool.take("int", 5) if pool else 5) if pr[5] else None,
        batch_count=contents.BatchCount(1))


def _response_header(pool, present=None):
    pr = present if present is not None else [True] * 1
    return messages.ResponseHeader(
        protocol_version=contents.ProtocolVersion(CURRENT[0], CURRENT[1]),
        time_stamp=contents.TimeStamp(pool.take("int", 5) if pool else 5),
        batch_count=contents.BatchCount(1))


def _request_item(pool, present=None):
    pr = present if present is not None else [True] * 3
    pl = payloads.GetRequestPayload(unique_identifier=pool.take("str", "1") if pool else "1")
    return messages.RequestBatchItem(
        operation=contents.Operation(enums.Operation.GET),
        unique_batch_item_id=contents.UniqueBatchItemID(pool.take("bytes", b"\x01") if pool else b"\x01") if pr[0] else None,
        request_payload=pl,
        ephemeral=(pool.take("bool", True) if pool else True) if pr[1] else None)


def _response_item(pool, present=None):
    pr = present if present is not None else [True, False, True, True]
    failed = bool(pr[1])
    if not failed and not pr[2]:
        pr = [pr[0], pr[1], True, pr[3]]       # a payload can only be decoded next to its Operation
    pl = None if failed else payloads.DestroyResponsePayload(
        unique_identifier=attributes.UniqueIdentifier(pool.take("str", "1") if pool else "1"))
    return messages.ResponseBatchItem(
        operation=contents.Operation(enums.Operation.DESTROY) if pr[2] else None,
        unique_batch_item_id=contents.UniqueBatchItemID(pool.take("bytes", b"\x01") if pool else b"\x01") if pr[0] else None,
        result_status=contents.ResultStatus(enums.ResultStatus.OPERATION_FAILED if failed else enums.ResultStatus.SUCCESS),
        result_reason=contents.ResultReason(enums.ResultReason.ITEM_NOT_FOUND) if failed else None,
        result_message=contents.ResultMessage(pool.take("str", "m") if pool else "m") if (failed and pr[3]) else None,
        response_payload=pl)


MANUAL = {
    # qualified name -> (builder(pool, present), number of presence bits, description of the shape)
    "attributes.Name": (lambda pool, pr=None: _name(pool), 0, "Name.create(text, UNINTERPRETED_TEXT_STRING)"),
    "objects.Attribute": (lambda pool, pr=None: _attribute(pool, 0), 0, "Attribute(Name, index, value)"),
    "objects.TemplateAttribute": (lambda pool, pr=None: _template(pool, None, pr), 4,
                                  "TemplateAttribute with Name / Cryptographic Length / Object Group / Algorithm attributes"),
    "objects.CommonTemplateAttribute": (lambda pool, pr=None: _template(pool, cobjects.CommonTemplateAttribute, pr), 4,
                                        "as TemplateAttribute"),
    "objects.PrivateKeyTemplateAttribute": (lambda pool, pr=None: _template(pool, cobjects.PrivateKeyTemplateAttribute, pr), 4,
                                            "as TemplateAttribute"),
    "objects.PublicKeyTemplateAttribute": (lambda pool, pr=None: _template(pool, cobjects.PublicKeyTemplateAttribute, pr), 4,
                                           "as TemplateAttribute"),
    "objects.KeyBlock": (_key_block, 3, "RAW key block: algorithm?, length?, key wrapping data?"),
    "secrets.SymmetricKey": (lambda pool, pr=None: secrets.SymmetricKey(key_block=_key_block(pool, pr)), 3, "SymmetricKey(KeyBlock)"),
    "secrets.PrivateKey": (lambda pool, pr=None: secrets.PrivateKey(key_block=_key_block(pool, pr)), 3, "PrivateKey(KeyBlock)"),
    "secrets.PublicKey": (lambda pool, pr=None: secrets.PublicKey(key_block=_key_block(pool, pr)), 3, "PublicKey(KeyBlock)"),
    "secrets.SecretData": (lambda pool, pr=None: secrets.SecretData(
        secret_data_type=primitives.Enumeration(enums.SecretDataType, enums.SecretDataType.PASSWORD, enums.Tags.SECRET_DATA_TYPE),
        key_block=_key_block(pool, pr)), 3, "SecretData(PASSWORD, KeyBlock)"),
    "secrets.OpaqueObject": (lambda pool, pr=None: secrets.OpaqueObject(
        opaque_data_type=secrets.OpaqueObject.OpaqueDataType(enums.OpaqueDataType.NONE),
        opaque_data_value=secrets.OpaqueObject.OpaqueDataValue(pool.take("bytes", b"\x01") if pool else b"\x01")), 0,
        "OpaqueObject(NONE, bytes)"),
    "contents.Authentication": (lambda pool, pr=None: _authentication(pool), 0, "Authentication([username/password credential])"),
    "messages.RequestHeader": (_request_header, 6, "RequestHeader: max size?, async?, authentication?, error option?, order?, time stamp?"),
    "messages.ResponseHeader": (_response_header, 0, "ResponseHeader(version, time stamp, batch count)"),
    "messages.RequestBatchItem": (_request_item, 2, "RequestBatchItem(GET payload): batch item id?, ephemeral?"),
    "messages.ResponseBatchItem": (_response_item, 4, "ResponseBatchItem: id?, failed (reason, no payload)?, operation?, message?"),
    "messages.RequestMessage": (lambda pool, pr=None: messages.RequestMessage(
        request_header=_request_header(pool, [False] * 6 if pr is None else pr[:2] + [False] * 4),
        batch_items=[_request_item(pool, None if pr is None else pr[2:4] + [False])]), 4, "RequestMessage(header, [GET item])"),
    "messages.ResponseMessage": (lambda pool, pr=None: messages.ResponseMessage(
        response_header=_response_header(pool), batch_items=[_response_item(pool, pr)]), 4, "ResponseMessage(header, [item])"),
}


class ManualSpec(Spec):
    def __init__(self, cls, builder, nbits, text):
        Spec.__init__(self, cls, [], list(VERSIONS), [])
        self.builder = builder
        self.nbits = nbits
        self.text = text


def install_manual():
    for name, (builder, nbits, text) in MANUAL.items():
        c = _resolve(name)
        _CACHE[c] = ManualSpec(c, builder, nbits, text)


def describe(spec):
    if isinstance(spec, ManualSpec):
        return "%s [hand-written builder: %s]" % (qual(spec.cls), spec.text)
    return "%s(%s)" % (qual(spec.cls), ", ".join("%s:%s" % (k, kind) for k, kind in spec.fields))
