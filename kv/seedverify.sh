#!/bin/sh
# usage: kv/seedverify.sh <dir with patch.diff + demo.py>   (verifies a seeded change in a scratch worktree)
# prints: SEED <dir> clean=<PASS|..> patched=<FAIL|..> suite=<summary>  and removes the worktree.
D="$1"
W="$(mktemp -d /tmp/kvseed.XXXXXX)"
rmdir "$W"
git -C /repo worktree add -q --detach "$W" HEAD || exit 3
cd "$W"
C="$(/venv/bin/python "$D/demo.py" 2>&1 | tail -1 | cut -c1-80)"; CRC=$?
git apply "$D/patch.diff" || { echo "SEED $D patch does not apply"; cd /; git -C /repo worktree remove --force "$W"; exit 3; }
P="$(/venv/bin/python "$D/demo.py" 2>&1 | grep -E "FAIL|PASS" | head -1 | cut -c1-160)"
S="$(/venv/bin/python -m pytest -q -p no:cacheprovider --timeout=900 --continue-on-collection-errors 2>&1 | tail -1)"
cd /
git -C /repo worktree remove --force "$W"
echo "SEED $D clean=[$C] patched=[$P] suite=[$S]"
