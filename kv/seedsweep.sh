#!/bin/sh
# usage: kv/seedsweep.sh <out-file> <seed-name>:<property> ...
# Runs the property's quick check against each seeded change (scratch copy of /repo + patch).
HERE="$(cd "$(dirname "$0")/.." && pwd)"
OUT="$1"; shift
for pair in "$@"; do
  seed="${pair%%:*}"; prop="${pair##*:}"
  r="$("$HERE/kv/mutate.sh" "$HERE/seeded/$seed/patch.diff" "$prop" 2>&1 | tail -1)"
  echo "$seed $prop $r" >> "$OUT"
done
