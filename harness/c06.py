"""C06 - cryptographic operations compute what they claim: decided for the PLUMBING only.

Hashing, ciphers, RSA and KDF arithmetic live behind the cryptography package's Rust/OpenSSL boundary
and cannot be encoded.  What is PyKMIP code - which key / IV / AAD / padding / mode / hash / length
reaches the backend, what is returned, which errors are converted - is executed symbolically with the
backend's primitives replaced by *recording fakes* whose outputs are an injective, readable function
of their inputs (so "the right primitive got the right arguments" is visible in the result):

    Cipher(alg(key), mode(iv)).encryptor().update(x)  ->  b"E[" + x + b"]"       (decryptor strips it)
    PKCS7 / ANSIX923 padders                           ->  pure-Python reference implementations
    HMAC(key, hash).finalize()                         ->  b"HMAC|<hash>|" + key + b"|" + data
    private_key.sign(data, padding, hash)              ->  b"SIG|<padding>|<hash>|" + data
    algorithms.X(key)                                  ->  raises ValueError for key sizes the real one refuses

Oracle: a reference table written from the crypto engine's docstrings and the KMIP specification.
"""
import types

from kv import rt
from kv.rt import Cond, reach
from kv import stubs, payloads as P
from kv.stubs import NoTracing, NullLogger, mk_engine, mk_obj

from kmip.core import enums
from kmip.core import exceptions as kex
from kmip.services.server.crypto import engine as ce_mod

A = enums.CryptographicAlgorithm
BM = enums.BlockCipherMode
PM = enums.PaddingMethod
HA = enums.HashingAlgorithm
DSA = enums.DigitalSignatureAlgorithm


class _Boom(object):
    """which failure the faked primitive layer injects (None: behaves)."""
    kind = None


def _maybe_boom(site):
    k = _Boom.kind
    if k is None or k[0] != site:
        return
    if k[1] == 0:
        raise ValueError("backend refused (%s)" % site)
    if k[1] == 1:
        raise TypeError("backend refused (%s)" % site)
    raise ce_mod.errors.UnsupportedAlgorithm("backend refused (%s)" % site)


def _mk_hash(name, size):
    class H(object):
        pass
    H.name = name
    H.digest_size = size
    H.__name__ = name
    return H


HASHES = {"MD5": _mk_hash("md5", 16), "SHA1": _mk_hash("sha1", 20), "SHA224": _mk_hash("sha224", 28),
          "SHA256": _mk_hash("sha256", 32), "SHA384": _mk_hash("sha384", 48), "SHA512": _mk_hash("sha512", 64)}

KEY_SIZES = {"AES": (16, 24, 32), "TripleDES": (8, 16, 24), "Blowfish": tuple(range(4, 57)), "Camellia": (16, 24, 32),
             "CAST5": tuple(range(5, 17)), "IDEA": (16,), "ARC4": (5, 7, 8, 10, 16, 20, 24, 32)}
BLOCK = {"AES": 128, "TripleDES": 64, "Blowfish": 64, "Camellia": 128, "CAST5": 64, "IDEA": 64}


def _mk_alg(name):
    class Alg(object):
        def __init__(self, key):
            _maybe_boom("algorithm")
            if len(key) not in KEY_SIZES[name]:
                raise ValueError("Invalid key size (%d) for %s." % (len(key) * 8, name))
            self.key = key
    Alg.name = name
    Alg.__name__ = name
    if name in BLOCK:
        Alg.block_size = BLOCK[name]
    return Alg


ALGS = {n: _mk_alg(n) for n in KEY_SIZES}


def _mk_mode(name, has_iv, has_nonce=False):
    class Mode(object):
        def __init__(self, *a, **k):
            self.args = a
            self.kwargs = k
            if has_iv:
                self.iv = a[0]
            if has_nonce:
                self.nonce_value = a[0]
    Mode.name = name
    Mode.__name__ = name
    if has_iv:
        Mode.initialization_vector = property(lambda self: self.iv)
    if has_nonce:
        Mode.nonce = property(lambda self: self.nonce_value)
    return Mode


MODES = {"CBC": _mk_mode("CBC", True), "ECB": _mk_mode("ECB", False), "OFB": _mk_mode("OFB", True),
         "CFB": _mk_mode("CFB", True), "CTR": _mk_mode("CTR", False, True), "GCM": _mk_mode("GCM", True)}

LOG = []


class FakeCipher(object):
    def __init__(self, algorithm, mode, backend=None):
        _maybe_boom("cipher")
        self.algorithm, self.mode = algorithm, mode
        # what the real Cipher/mode constructors refuse (mode.validate_for_algorithm, GCM limits)
        if mode is not None and mode.name in ("CBC", "OFB", "CFB", "CTR"):
            if len(mode.args[0]) * 8 != algorithm.block_size:
                raise ValueError("Invalid IV size (%d) for %s." % (len(mode.args[0]), mode.name))
        if mode is not None and mode.name == "GCM":
            if not (8 <= len(mode.args[0]) <= 128):
                raise ValueError("initialization_vector must be between 8 and 128 bytes (64 and 1024 bits).")
            mtl = mode.kwargs.get("min_tag_length", 16)
            if mtl is None or mtl < 4:
                raise ValueError("min_tag_length must be >= 4")
        LOG.append(("Cipher", algorithm, mode))

    def encryptor(self):
        return _Ctx(self, True)

    def decryptor(self):
        return _Ctx(self, False)


class _Ctx(object):
    def __init__(self, c, enc):
        self.c, self.enc, self.aad, self.buf = c, enc, None, b""
        self.tag = b"T" * 16

    def authenticate_additional_data(self, aad):
        self.aad = aad
        LOG.append(("aad", aad))

    def update(self, data):
        LOG.append(("update", self.enc, data))
        if self.enc:
            return b"E[" + data + b"]"
        if data[:2] != b"E[" or data[-1:] != b"]":
            raise ValueError("not a ciphertext of the fake cipher")
        return data[2:-1]

    def finalize(self):
        m = self.c.mode
        if not self.enc and m is not None and m.name == "GCM":
            # authenticated decryption: the tag handed to the mode must be the tag of this cipher text
            tag = m.args[1] if len(m.args) > 1 else m.kwargs.get("tag")
            if tag is None or tag != (b"T" * 16)[:len(tag)] or len(tag) < 4:
                raise ce_mod.errors.InvalidTag()
        return b""


def _pkcs7_pad(data, block_bits):
    n = block_bits // 8
    k = n - (len(data) % n)
    return data + bytes([k]) * k


def _x923_pad(data, block_bits):
    n = block_bits // 8
    k = n - (len(data) % n)
    return data + bytes(k - 1) + bytes([k])


def _mk_padding(name, pad):
    class Padding(object):
        def __init__(self, block_size):
            self.block_size = block_size

        def padder(self):
            return _Padder(pad, self.block_size, False)

        def unpadder(self):
            return _Padder(pad, self.block_size, True)
    Padding.__name__ = name
    return Padding


class _Padder(object):
    def __init__(self, pad, bs, undo):
        self.pad, self.bs, self.undo, self.data = pad, bs, undo, b""

    def update(self, data):
        self.data += data
        return b""

    def finalize(self):
        if not self.undo:
            return self.pad(self.data, self.bs)
        if not self.data:
            raise ValueError("Invalid padding bytes.")
        k = self.data[-1]
        if k < 1 or k > self.bs // 8 or k > len(self.data):
            raise ValueError("Invalid padding bytes.")
        return self.data[:len(self.data) - k]


class FakeHMAC(object):
    def __init__(self, key, algorithm, backend=None):
        _maybe_boom("hmac")
        self.key, self.h, self.data = key, algorithm, b""

    def update(self, data):
        self.data += data

    def finalize(self):
        return b"HMAC|" + self.h.name.encode() + b"|" + self.key + b"|" + self.data


class FakeCMAC(object):
    def __init__(self, algorithm, backend=None):
        _maybe_boom("cmac")
        if not hasattr(algorithm, "block_size"):
            raise TypeError("Expected instance of BlockCipherAlgorithm.")
        self.a, self.data = algorithm, b""

    def update(self, data):
        self.data += data

    def finalize(self):
        return b"CMAC|" + self.a.name.encode() + b"|" + self.a.key + b"|" + self.data


class _AsymPad(object):
    def __init__(self, name):
        self.name = name


class FakePrivateKey(object):
    def __init__(self, der):
        self.der = der

    def sign(self, data, padding, algorithm):
        _maybe_boom("sign")
        return b"SIG|" + padding.name.encode() + b"|" + algorithm.name.encode() + b"|" + self.der + b"|" + data


class FakePublicKey(object):
    def __init__(self, der):
        self.der = der

    def verify(self, signature, data, padding, algorithm):
        _maybe_boom("verify")
        LOG.append(("verify", padding.name, algorithm.name, self.der))
        want_tail = b"|" + data
        if signature[:4] != b"SIG|" or signature[len(signature) - len(want_tail):] != want_tail:
            raise ce_mod.errors.InvalidSignature()
        head = b"SIG|" + padding.name.encode() + b"|" + algorithm.name.encode() + b"|"
        if signature[:len(head)] != head:
            raise ce_mod.errors.InvalidSignature()


def install():
    """Replace the cryptography primitives in the crypto engine module's namespace, then build a real
    CryptographyEngine (its lookup tables are filled from these names by the real __init__)."""
    with NoTracing():
        ce_mod.hashes = types.SimpleNamespace(**HASHES)
        ce_mod.algorithms = types.SimpleNamespace(**ALGS)
        ce_mod.modes = types.SimpleNamespace(**MODES)
        ce_mod.ciphers = types.SimpleNamespace(Cipher=FakeCipher)
        ce_mod.hmac = types.SimpleNamespace(HMAC=FakeHMAC)
        ce_mod.cmac = types.SimpleNamespace(CMAC=FakeCMAC)
        ce_mod.symmetric_padding = types.SimpleNamespace(PKCS7=_mk_padding("PKCS7", _pkcs7_pad),
                                                         ANSIX923=_mk_padding("ANSIX923", _x923_pad))

        def _pss(mgf=None, salt_length=None):
            # the mask generation function's hash is part of what PSS computes
            return _AsymPad("PSS/mgf1-%s" % (mgf[1].name if mgf else "none"))
        ce_mod.asymmetric_padding = types.SimpleNamespace(
            PKCS1v15=lambda: _AsymPad("PKCS1v15"), PSS=_pss, OAEP=lambda **k: _AsymPad("OAEP"),
            MGF1=lambda algorithm=None: ("MGF1", algorithm))
        ce_mod.asymmetric_padding.PSS.MAX_LENGTH = 0
        ce_mod.serialization = types.SimpleNamespace(
            load_der_private_key=lambda d, password=None, backend=None: FakePrivateKey(d),
            load_pem_private_key=lambda d, password=None, backend=None: FakePrivateKey(d),
            load_der_public_key=lambda d, backend=None: FakePublicKey(d),
            load_pem_public_key=lambda d, backend=None: FakePublicKey(d))
        class _KDF(object):
            kind = "?"

            def __init__(self, **k):
                self.k = k

            def derive(self, key):
                _maybe_boom("kdf")
                LOG.append((self.kind, dict(self.k), key))
                return self.kind.encode() + b"|" + self.k["algorithm"].name.encode() + b"|" + bytes(self.k["length"])

        class _HKDF(_KDF):
            kind = "HKDF"

        class _PBKDF2(_KDF):
            kind = "PBKDF2"

        class _KBKDF(_KDF):
            kind = "KBKDF"

        class _Hash(object):
            def __init__(self, algorithm=None, backend=None):
                self.a, self.data = algorithm, b""

            def update(self, d):
                self.data += d

            def finalize(self):
                LOG.append(("Hash", self.a.name, self.data))
                return b"HASH|" + self.a.name.encode() + b"|" + self.data
        ce_mod.hashes.Hash = _Hash
        ce_mod.hkdf = types.SimpleNamespace(HKDF=_HKDF)
        ce_mod.pbkdf2 = types.SimpleNamespace(PBKDF2HMAC=_PBKDF2)
        ce_mod.kbkdf = types.SimpleNamespace(KBKDFHMAC=_KBKDF, Mode=types.SimpleNamespace(CounterMode="counter"),
                                             CounterLocation=types.SimpleNamespace(BeforeFixed="before"))

        def _wrap(wrapping_key, key_to_wrap, backend=None):
            _maybe_boom("wrap")
            if len(wrapping_key) not in (16, 24, 32):
                raise ValueError("The wrapping key must be a valid AES key length")
            if len(key_to_wrap) < 16 or len(key_to_wrap) % 8 != 0:
                raise ValueError("The key to wrap must be at least 16 bytes and a multiple of 8 bytes")
            return b"WRAP|" + wrapping_key + b"|" + key_to_wrap
        ce_mod.keywrap = types.SimpleNamespace(aes_key_wrap=_wrap)
        ce_mod.default_backend = lambda: None
        e = ce_mod.CryptographyEngine()
        e.logger = NullLogger()
    return e


SYM = [(A.AES, "AES"), (A.TRIPLE_DES, "TripleDES"), (A.BLOWFISH, "Blowfish"), (A.CAMELLIA, "Camellia"),
       (A.CAST5, "CAST5"), (A.IDEA, "IDEA"), (A.RC4, "ARC4")]
MODE_LIST = [None, BM.CBC, BM.ECB, BM.OFB, BM.CFB, BM.CTR, BM.GCM, BM.CBC_MAC]
PAD_LIST = [None, PM.PKCS5, PM.ANSI_X923, PM.ZEROS]


def encrypt_sym(alg_i, fix_mode=None):
    alg, alg_name = SYM[alg_i]
    sizes = KEY_SIZES[alg_name]

    def h(mode_i: int, pad_i: int, klen_i: int, plain: bytes, has_iv: bool, iv: bytes, has_aad: bool,
          tag_len: int, has_tag_len: bool, boom: int) -> bool:
        """
        post: _
        """
        if not (0 <= mode_i < len(MODE_LIST) and 0 <= pad_i < len(PAD_LIST) and 0 <= klen_i <= 2 and len(plain) <= 17
                and tag_len in (0, 3, 4, 16) and 0 <= boom <= 3):
            return True
        if fix_mode is not None and mode_i != fix_mode:
            return True
        if boom > 1:
            return True                 # one injected exception class here; all three classes in the MAC condition
        if alg_name == "ARC4" and pad_i not in (0, 2):
            return True                 # padding is irrelevant for the stream cipher: absent / one method
        blk = BLOCK.get(alg_name, 64) // 8
        if len(iv) not in (blk, blk - 1):
            return True
        if not has_iv and iv != bytes(blk):
            return True
        if not has_tag_len and tag_len:
            return True
        if len(plain) not in (0, 1, blk - 1, blk, blk + 1, 2 * blk):
            return True
        klen = [sizes[0], sizes[-1], 3][klen_i]
        key = bytes(range(1, klen + 1))
        mode = None
        for k in range(len(MODE_LIST)):
            if mode_i == k:
                mode = MODE_LIST[k]
        pad = None
        for k in range(len(PAD_LIST)):
            if pad_i == k:
                pad = PAD_LIST[k]
        _Boom.kind = None if boom == 0 else ("algorithm", boom - 1)
        e = install()
        del LOG[:]
        aad = b"AAD" if has_aad else None
        try:
            res = e.encrypt(alg, key, plain, cipher_mode=mode, padding_method=pad, iv_nonce=iv if has_iv else None,
                            auth_additional_data=aad, auth_tag_length=tag_len if has_tag_len else None)
        except (kex.InvalidField, kex.CryptographicFailure):
            reach()
            _Boom.kind = None
            # refusal is right exactly when the request is not serviceable
            bad_key = klen not in sizes or boom != 0
            if alg == A.RC4:
                # the mode is ignored for a stream cipher, but a GCM request is still checked as one
                return bad_key or (has_aad and mode != BM.GCM) or (mode == BM.GCM and not has_tag_len)
            unsupported_mode = mode in (None, BM.CBC_MAC)
            gcm = mode == BM.GCM
            pad_needed = mode in (BM.CBC, BM.ECB)
            bad_pad = pad_needed and pad not in (PM.PKCS5, PM.ANSI_X923)
            uses_iv_ = mode in (BM.CBC, BM.OFB, BM.CFB, BM.CTR)     # (GCM takes any IV of 8..128 bytes)
            bad_iv = uses_iv_ and has_iv and len(iv) != blk          # the backend refuses a short IV
            if gcm and has_iv and not (8 <= len(iv) <= 128):
                bad_iv = True                                        # GCM: 64..1024 bits (64-bit block ciphers: blk-1 = 7)
            bad_tag = gcm and has_tag_len and tag_len < 4               # ... and tags shorter than 4 bytes
            return (bad_key or unsupported_mode or bad_pad or (has_aad and not gcm) or (gcm and not has_tag_len)
                    or bad_iv or bad_tag)
        finally:
            _Boom.kind = None
        reach()
        if klen not in sizes or boom != 0:
            return False                                  # an unusable key went through
        if alg != A.RC4 and has_iv and len(iv) != blk and mode in (BM.CBC, BM.OFB, BM.CFB, BM.CTR):
            return False                                  # an IV of the wrong size went through
        ct = res["cipher_text"]
        if alg == A.RC4:
            return ct == b"E[" + plain + b"]" and "iv_nonce" not in res
        if mode in (BM.CBC, BM.ECB):
            padded = _pkcs7_pad(plain, blk * 8) if pad == PM.PKCS5 else _x923_pad(plain, blk * 8)
        else:
            padded = plain                                # stream-like modes: no padding, whatever was asked
        if ct != b"E[" + padded + b"]":
            return False
        # the backend saw exactly the supplied key and IV
        cipher = [x for x in LOG if x[0] == "Cipher"]
        if len(cipher) != 1 or cipher[0][1].key != key or cipher[0][1].name != alg_name:
            return False
        m = cipher[0][2]
        uses_iv = mode in (BM.CBC, BM.OFB, BM.CFB, BM.CTR, BM.GCM)
        if uses_iv:
            used = m.args[0]
            if has_iv:
                if used != iv or "iv_nonce" in res:
                    return False
            else:
                if res.get("iv_nonce") != used or len(used) != blk:
                    return False
        elif "iv_nonce" in res:
            return False
        if mode == BM.GCM:
            if res.get("auth_tag") != (b"T" * 16)[:tag_len]:
                return False
            if has_aad != (("aad", b"AAD") in LOG):
                return False
        elif "auth_tag" in res:
            return False
        return True
    return h


def decrypt_roundtrip(alg_i):
    """Decrypt(Encrypt(m)) == m through the engine's own plumbing (padding undone, IV reused)."""
    alg, alg_name = SYM[alg_i]
    sizes = KEY_SIZES[alg_name]

    def h(mode_i: int, pad_i: int, plain: bytes, has_iv: bool) -> bool:
        """
        post: _
        """
        if not (1 <= mode_i <= 6 and 1 <= pad_i <= 2 and len(plain) <= 17):
            return True
        blk = BLOCK.get(alg_name, 64) // 8
        if len(plain) not in (0, 1, blk - 1, blk, blk + 1, 2 * blk):
            return True
        key = bytes(range(1, sizes[0] + 1))
        mode = None
        for k in range(len(MODE_LIST)):
            if mode_i == k:
                mode = MODE_LIST[k]
        pad = PM.PKCS5 if pad_i == 1 else PM.ANSI_X923
        iv = bytes(range(9, 9 + blk)) if has_iv else None
        e = install()
        tl = 16 if mode == BM.GCM else None
        res = e.encrypt(alg, key, plain, cipher_mode=mode, padding_method=pad, iv_nonce=iv, auth_tag_length=tl)
        back = e.decrypt(alg, key, res["cipher_text"], cipher_mode=mode, padding_method=pad,
                         iv_nonce=res.get("iv_nonce", iv), auth_tag=res.get("auth_tag"))
        reach()
        return back == plain
    return h


def decrypt_garbage(alg_i):
    """Decrypt of bytes that are not a cipher text of this key (the fake cipher refuses them, the fake
    unpadder refuses bad padding): a KMIP error, never anything else."""
    alg, alg_name = SYM[alg_i]
    sizes = KEY_SIZES[alg_name]

    def h(mode_i: int, pad_i: int, data: bytes, wrap_ok: bool, iv_short: bool, tag_ok: bool) -> bool:
        """
        post: _
        """
        if not (1 <= mode_i <= 6 and 1 <= pad_i <= 2) or len(data) > 3:
            return True
        blk = BLOCK.get(alg_name, 64) // 8
        key = bytes(range(1, sizes[0] + 1))
        mode = None
        for k in range(len(MODE_LIST)):
            if mode_i == k:
                mode = MODE_LIST[k]
        pad = PM.PKCS5 if pad_i == 1 else PM.ANSI_X923
        iv = bytes(blk - 1 if iv_short else blk)
        ct = (b"E[" + data + b"]") if wrap_ok else data
        e = install()
        tag = (b"T" * 16 if tag_ok else b"X" * 16) if mode == BM.GCM else None
        try:
            e.decrypt(alg, key, ct, cipher_mode=mode, padding_method=pad, iv_nonce=iv, auth_tag=tag)
        except kex.KmipError:
            reach()
            return True
        reach()
        # accepted: only a cipher text of this (fake) cipher, with the right tag in GCM mode, may decrypt
        is_ct = wrap_ok or (len(ct) >= 3 and ct[:2] == b"E[" and ct[-1:] == b"]")
        if alg == A.RC4:
            return is_ct
        if not is_ct:
            return False
        if mode == BM.GCM and not tag_ok:
            return False
        return True
    return h


MAC_ALGS = [A.HMAC_SHA1, A.HMAC_SHA224, A.HMAC_SHA256, A.HMAC_SHA384, A.HMAC_SHA512, A.HMAC_MD5,
            A.AES, A.TRIPLE_DES, A.CAMELLIA, A.RC4, A.RSA, A.DSA]
MAC_HASH = {A.HMAC_SHA1: "sha1", A.HMAC_SHA224: "sha224", A.HMAC_SHA256: "sha256", A.HMAC_SHA384: "sha384",
            A.HMAC_SHA512: "sha512", A.HMAC_MD5: "md5"}
MAC_CIPHER = {A.AES: "AES", A.TRIPLE_DES: "TripleDES", A.CAMELLIA: "Camellia", A.RC4: "ARC4"}


def mac(oracle="c06"):
    """oracle 'c13': only 'whatever the backend raises, the crypto engine answers with a KMIP error'."""
    def h(ai: int, klen: int, data: bytes, site: int, boom: int) -> bool:
        """
        post: _
        """
        if not (0 <= ai < len(MAC_ALGS) and klen in (3, 16, 20, 24) and len(data) <= 2 and 0 <= site <= 2 and 0 <= boom <= 3):
            return True
        alg = None
        for k in range(len(MAC_ALGS)):
            if ai == k:
                alg = MAC_ALGS[k]
        key = bytes(range(1, klen + 1))
        _Boom.kind = None if boom == 0 else (["hmac", "cmac", "algorithm"][site], boom - 1)
        e = install()
        if oracle == "c13":
            try:
                e.mac(alg, key, data)
            except kex.KmipError:
                pass
            finally:
                _Boom.kind = None
            reach()
            return True                       # any other exception propagates: it would reach the catch-all
        try:
            out = e.mac(alg, key, data)
        except kex.InvalidField:
            reach()
            return alg not in MAC_HASH and alg not in MAC_CIPHER
        except kex.CryptographicFailure:
            reach()
            if alg in MAC_HASH:
                return boom != 0 and site == 0
            if alg in MAC_CIPHER:
                name = MAC_CIPHER[alg]
                return name == "ARC4" or klen not in KEY_SIZES[name] or (boom != 0 and site in (1, 2))
            return False
        finally:
            _Boom.kind = None
        reach()
        if alg in MAC_HASH:
            return out == b"HMAC|" + MAC_HASH[alg].encode() + b"|" + key + b"|" + data
        if alg in MAC_CIPHER:
            return out == b"CMAC|" + MAC_CIPHER[alg].encode() + b"|" + key + b"|" + data
        return False
    return h


DSAS = [None, DSA.MD5_WITH_RSA_ENCRYPTION, DSA.SHA1_WITH_RSA_ENCRYPTION, DSA.SHA224_WITH_RSA_ENCRYPTION,
        DSA.SHA256_WITH_RSA_ENCRYPTION, DSA.SHA384_WITH_RSA_ENCRYPTION, DSA.SHA512_WITH_RSA_ENCRYPTION,
        DSA.DSA_WITH_SHA1]
DSA_HASH = {DSA.MD5_WITH_RSA_ENCRYPTION: "md5", DSA.SHA1_WITH_RSA_ENCRYPTION: "sha1", DSA.SHA224_WITH_RSA_ENCRYPTION: "sha224",
            DSA.SHA256_WITH_RSA_ENCRYPTION: "sha256", DSA.SHA384_WITH_RSA_ENCRYPTION: "sha384",
            DSA.SHA512_WITH_RSA_ENCRYPTION: "sha512"}
HASHALGS = [None, HA.MD5, HA.SHA_1, HA.SHA_224, HA.SHA_256, HA.SHA_384, HA.SHA_512, HA.MD2]
HA_NAME = {HA.MD5: "md5", HA.SHA_1: "sha1", HA.SHA_224: "sha224", HA.SHA_256: "sha256", HA.SHA_384: "sha384",
           HA.SHA_512: "sha512"}
APADS = [None, PM.PKCS1v15, PM.PSS, PM.OAEP]


def sign_verify():
    def h(di: int, hi: int, pi: int, alg_rsa: bool, has_alg: bool, data: bytes) -> bool:
        """
        post: _
        """
        if not (0 <= di < len(DSAS) and 0 <= hi < len(HASHALGS) and 0 <= pi < len(APADS) and len(data) <= 2):
            return True
        dsa = None
        for k in range(len(DSAS)):
            if di == k:
                dsa = DSAS[k]
        hsh = None
        for k in range(len(HASHALGS)):
            if hi == k:
                hsh = HASHALGS[k]
        pad = None
        for k in range(len(APADS)):
            if pi == k:
                pad = APADS[k]
        calg = (A.RSA if alg_rsa else A.AES) if has_alg else None
        e = install()
        del LOG[:]
        # expected hash / refusal (docstring of sign): the digital signature algorithm decides when given,
        # else the (cryptographic algorithm, hashing algorithm) pair; RSA only; padding PSS or PKCS1v15
        if dsa is not None:
            exp_hash = DSA_HASH.get(dsa)
            exp_ok = exp_hash is not None
        else:
            exp_hash = HA_NAME.get(hsh)
            exp_ok = exp_hash is not None and calg == A.RSA
        exp_ok = exp_ok and pad in (PM.PKCS1v15, PM.PSS)
        try:
            sig = e.sign(dsa, calg, hsh, pad, b"DERKEY", data)
        except (kex.InvalidField, kex.CryptographicFailure):
            reach()
            return not exp_ok
        reach()
        if not exp_ok:
            return False
        pname = "PKCS1v15" if pad == PM.PKCS1v15 else "PSS/mgf1-" + exp_hash
        if sig != b"SIG|" + pname.encode() + b"|" + exp_hash.encode() + b"|DERKEY|" + data:
            return False
        # and verification of that signature with the same parameters accepts, with a different hash refuses
        ok = e.verify_signature(b"DERPUB", data, sig, pad, signing_algorithm=None if dsa is not None else calg,
                                hashing_algorithm=None if dsa is not None else hsh, digital_signature_algorithm=dsa)
        if ok is not True:
            return False
        other = HA.SHA_1 if exp_hash != "sha1" else HA.SHA_256
        bad = e.verify_signature(b"DERPUB", data, sig, pad, signing_algorithm=A.RSA, hashing_algorithm=other,
                                 digital_signature_algorithm=None)
        return bad is False
    return h


DMETHODS = [enums.DerivationMethod.HMAC, enums.DerivationMethod.HASH, enums.DerivationMethod.PBKDF2,
            enums.DerivationMethod.NIST800_108_C, enums.DerivationMethod.ENCRYPT, enums.DerivationMethod.ASYMMETRIC_KEY]


def derive_plumbing(fix_method=None):
    """CryptographyEngine.derive_key: the right primitive with exactly the supplied parameters."""
    def h(mi: int, hi: int, length: int, has_data: bool, has_key: bool, has_salt: bool, has_iter: bool,
          iters: int, boom: int) -> bool:
        """
        post: _
        """
        if not (0 <= mi < len(DMETHODS) and 0 <= hi < len(HASHALGS) and length in (1, 16, 64) and 0 <= iters <= 10000
                and boom == 0):
            return True
        if fix_method is not None and mi != fix_method:
            return True
        method = None
        for k in range(len(DMETHODS)):
            if mi == k:
                method = DMETHODS[k]
        hsh = None
        for k in range(len(HASHALGS)):
            if hi == k:
                hsh = HASHALGS[k]
        data = b"DATA" if has_data else None
        key = b"KEYMATERIAL-----" if has_key else None
        salt = b"SALT" if has_salt else None
        _Boom.kind = None
        e = install()
        del LOG[:]
        hname = HA_NAME.get(hsh)
        try:
            out = e.derive_key(method, length, derivation_data=data, key_material=key, hash_algorithm=hsh, salt=salt,
                               iteration_count=iters if has_iter else None,
                               encryption_algorithm=A.AES, cipher_mode=BM.CBC, padding_method=PM.PKCS5,
                               iv_nonce=b"\x00" * 16)
        except (kex.InvalidField, kex.CryptographicFailure):
            reach()
            if method == enums.DerivationMethod.ENCRYPT:
                return key is None or data is None            # (the encrypt path itself is the encrypt-* conditions' subject)
            if hname is None or method == enums.DerivationMethod.ASYMMETRIC_KEY:
                return True
            if method == enums.DerivationMethod.HASH:
                return has_data == has_key
            if method == enums.DerivationMethod.PBKDF2:
                return not has_salt or not has_iter
            return False
        reach()
        if method == enums.DerivationMethod.ENCRYPT:
            return data is not None and key is not None and out == b"E[" + _pkcs7_pad(data, 128) + b"]"
        if hname is None:
            return False
        if method == enums.DerivationMethod.HASH:
            return has_data != has_key and out == b"HASH|" + hname.encode() + b"|" + (data if has_data else key)
        rec = [x for x in LOG if x[0] in ("HKDF", "PBKDF2", "KBKDF")]
        if len(rec) != 1:
            return False
        kind, kw, used_key = rec[0]
        if used_key != key or kw["length"] != length or kw["algorithm"].name != hname:
            return False
        if method == enums.DerivationMethod.HMAC:
            return kind == "HKDF" and kw.get("salt") == salt and kw.get("info") == data
        if method == enums.DerivationMethod.PBKDF2:
            return kind == "PBKDF2" and has_salt and has_iter and kw.get("salt") == salt and kw.get("iterations") == iters
        if method == enums.DerivationMethod.NIST800_108_C:
            return kind == "KBKDF" and kw.get("fixed") == data and kw.get("rlen") == 4
        return False
    return h


def wrap_plumbing():
    def h(wm: int, ai: int, klen: int, mlen: int, boom: int) -> bool:
        """
        post: _
        """
        if not (0 <= wm <= 2 and 0 <= ai <= 2 and klen in (8, 16, 24, 32) and mlen in (8, 16, 20, 24) and 0 <= boom <= 3):
            return True
        method = [enums.WrappingMethod.ENCRYPT, enums.WrappingMethod.MAC_SIGN, enums.WrappingMethod.TR_31][wm]
        alg = [BM.NIST_KEY_WRAP, BM.CBC, None][ai]
        key = bytes(range(1, klen + 1))
        material = bytes(range(100, 100 + mlen))
        _Boom.kind = None if boom == 0 else ("wrap", boom - 1)
        e = install()
        try:
            out = e.wrap_key(material, method, alg, key)
        except kex.InvalidField:
            reach()
            return wm != 0 or ai != 0
        except kex.CryptographicFailure:
            reach()
            return wm == 0 and ai == 0 and (boom != 0 or klen == 8 or mlen in (8, 20))
        finally:
            _Boom.kind = None
        reach()
        return wm == 0 and ai == 0 and boom == 0 and out == b"WRAP|" + key + b"|" + material
    return h


class LongCrypto(P.RecordingCrypto):
    """A backend whose derive_key returns more bytes than asked (a hash or cipher output is as long as it is)."""

    def derive_key(self, *a, **k):
        self._call("derive_key", a, k)
        return bytes(range(64))


def derive_truncation(object_type):
    ot = getattr(enums.ObjectType, object_type)

    def h(li: int, mi: int) -> bool:
        """
        post: _
        """
        if not (0 <= li <= 3 and 0 <= mi <= 2):
            return True
        bits = [64, 128, 256, 512][li]
        method = [enums.DerivationMethod.HASH, enums.DerivationMethod.ENCRYPT, enums.DerivationMethod.PBKDF2][mi]
        M = enums.CryptographicUsageMask
        base = mk_obj("SymmetricKey", uid=1, owner="alice", state=enums.State.ACTIVE, masks=[M.DERIVE_KEY])
        crypto = LongCrypto()
        e, s = mk_engine([base], identity=("alice", None), crypto=crypto)
        tmpl = P.sym_template(alg=A.AES if object_type == "SYMMETRIC_KEY" else None, length=bits,
                              mask=[M.ENCRYPT] if object_type == "SYMMETRIC_KEY" else None)
        pl = P.mk("DERIVE_KEY", "1", object_type=ot, method=method, template=tmpl)
        r = e._process_operation(enums.Operation.DERIVE_KEY, pl)
        reach()
        new = [o for o in s.objs if o is not base]
        if len(new) != 1:
            return False
        # the derived object holds exactly the requested number of bytes, and the backend was asked for them
        if len(new[0].value) != bits // 8 or new[0].value != bytes(range(64))[:bits // 8]:
            return False
        call = [c for c in crypto.calls if c[0] == "derive_key"]
        return len(call) == 1 and call[0][2].get("derivation_length") == bits // 8
    return h


def conditions(tier):
    thorough = tier == "thorough"
    out = []
    for i, (alg, name) in enumerate(SYM):
        if not thorough and name in ("Camellia", "CAST5", "IDEA", "Blowfish"):
            continue
        for mi in range(len(MODE_LIST)):
            if name == "ARC4" and mi not in (0, 1, 6):
                continue
            if not thorough and name == "TripleDES" and mi not in (1, 2, 5):
                continue
            mname = MODE_LIST[mi].name if MODE_LIST[mi] else "None"
            out.append(Cond("encrypt-%s-mode%s" % (name, mname), "encrypt_sym", dict(alg_i=i, fix_mode=mi),
                            bounds="%s, mode %s: padding None/PKCS5/ANSI_X923/ZEROS, key of smallest/largest valid size "
                                   "or 3 bytes, plaintext of 0,1,block-1,block,block+1,2*block arbitrary bytes, IV supplied "
                                   "(arbitrary bytes) or generated, AAD present or not, tag length absent or 0/3/4/16, the "
                                   "algorithm constructor behaving or raising ValueError"
                                   % (name, mname), timeout=1200, part="symmetric"))
        out.append(Cond("decrypt-garbage-%s" % name, "decrypt_garbage", dict(alg_i=i),
                        bounds="%s: every supported mode, both paddings, data of <=3 arbitrary bytes presented as cipher "
                               "text (well-formed for the fake cipher or not), IV of block size or one byte short" % name,
                        timeout=600, part="symmetric"))
        out.append(Cond("decrypt-roundtrip-%s" % name, "decrypt_roundtrip", dict(alg_i=i),
                        bounds="%s: every supported mode, both paddings, plaintext lengths around the block size, IV "
                               "supplied or generated" % name, timeout=900, part="symmetric"))
    out.append(Cond("mac", "mac", {}, bounds="12 algorithms (6 HMAC, 3 block ciphers, RC4, 2 non-MAC), key length "
                    "3/16/20/24, data len<=2, the HMAC/CMAC/algorithm constructors behaving or raising ValueError/"
                    "TypeError/UnsupportedAlgorithm", timeout=900, part="mac"))
    out.append(Cond("sign-verify", "sign_verify", {}, bounds="digital signature algorithm absent / 6 RSA members / "
                    "DSA_WITH_SHA1, hashing algorithm absent / 6 supported / MD2, padding absent/PKCS1v15/PSS/OAEP, "
                    "cryptographic algorithm absent/RSA/AES, data len<=2", timeout=900, part="signature"))
    for mi in range(len(DMETHODS)):
      out.append(Cond("derive-plumbing-%s" % DMETHODS[mi].name, "derive_plumbing", dict(fix_method=mi),
                    bounds="derive_key, method " + DMETHODS[mi].name + ": hashing algorithm absent / 6 supported / MD2, length 1/16/64, derivation data / "
                           "key material / salt / iteration count present or not, iterations 0..10000", timeout=900,
                    part="derive"))
    out.append(Cond("wrap-plumbing", "wrap_plumbing", {},
                    bounds="wrap_key: 3 wrapping methods, key wrap algorithm NIST_KEY_WRAP/CBC/absent, wrapping key of 8/16/24/32 "
                           "bytes, key material of 8/16/20/24 bytes, aes_key_wrap behaving or raising", timeout=600, part="wrap"))
    for ot in ("SYMMETRIC_KEY", "SECRET_DATA"):
        out.append(Cond("derive-truncation-%s" % ot, "derive_truncation", dict(object_type=ot),
                        bounds="DeriveKey of a %s of 64/128/256/512 bits by HASH/ENCRYPT/PBKDF2 with a backend that returns "
                               "64 bytes" % ot, timeout=600, part="derive"))
    return out
