"""C16 part 5 - codec version gates: a field introduced in a later KMIP version is dropped by the writer
for an older version and its tag is absent from the encoding (classes listed in harness.c01s.GATED)."""
from kv.rt import Cond
from harness import c01s
from harness.c01s import struct_gates  # noqa: F401

def conditions(tier):
    from kv import structs as S
    S.load_or_discover()
    names = {S.qual(c) for c in S.all_classes() if S._CACHE.get(c) is not None}
    gated = sorted({k[0] for k in c01s.GATED})
    out = []
    for name in gated:
        if name not in names:
            continue                  # shape not discoverable on this tree (listed by harness.c01s.undiscovered())
        if name == "create.CreateRequestPayload" and tier != "thorough":
            continue                  # template conversion makes this class expensive: thorough tier only
        for vi in range(6):
            out.append(Cond("gates-%s-v%d" % (name, vi), "struct_gates", dict(name=name, versions=[vi]),
                            bounds="%s under %s: presence of its fields symbolic; gated fields %s"
                                   % (name, c01s.ORDER[vi].name, sorted(k[1] for k in c01s.GATED if k[0] == name)),
                            timeout=600, part="codec-gates"))
    return out
