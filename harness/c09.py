"""C09 - crash consistency, reduced to the transaction shape of every state-changing operation.

(A) SQLite commits are atomic and durable [trusted, not checked].
(B) every state-changing operation performs all of its store mutations inside ONE transaction that
    ends with its commit, and reports success only after that commit; a failing operation commits
    nothing.  (B) is decided here on every path of the real handlers over a recording store
    (TxSession: the state at the last commit is what survives a crash or the end of the request).
(C) the real session factory is transactional (no autocommit) - the assumption that makes the
    TxSession model faithful - is read off the engine /repo builds.
"""
from kv import rt
from kv.rt import Cond, reach
from kv import stubs, payloads as P
from kv.stubs import mk_engine, mk_obj, snapshot, NoTracing, TxSession
from harness.c08 import mk_request, mk_rich, build_attr_payload, ATTR_NAMES, _tmpl, CREATORS

from kmip.core import enums
from kmip.core.messages import payloads

OP = enums.Operation
ST = enums.State
BEC = enums.BatchErrorContinuationOption


def _shape_ok(s, succeeded):
    if s.pending:
        return False                          # an add/delete left for somebody else's commit
    if succeeded:
        # acknowledged => everything the handler did is in the last commit, and it was one commit
        return s.state() == s.committed and s.state_commits <= 1
    return s.state_commits == 0 and s.state() == s.initial


def tx_existing(op, kind, version, ni=None, menu=None):
    """Activate / Revoke / Destroy / Set-, Modify-, DeleteAttribute on a stored object."""
    version = tuple(version)
    name = ATTR_NAMES[ni] if ni is not None else None

    def h(index: int, has_index: bool, nlist: int, text: str, form: int, si: int, ci: int, deny: bool) -> bool:
        """
        post: _
        """
        if not (-1 <= index <= 2 and 0 <= nlist <= 2 and 0 <= form <= 1 and 0 <= si < 4 and len(text) <= 1):
            return True
        codes = list(enums.RevocationReasonCode)
        if not (0 <= ci < len(codes)):
            return True
        if name is None and (has_index or index or nlist or text or form):
            return True
        if name is not None and (si or ci):
            return True
        if menu is not None:
            text = menu[len(text)]
        state = [ST.PRE_ACTIVE, ST.ACTIVE, ST.DEACTIVATED, ST.COMPROMISED][si]
        o = mk_rich(kind, nlist, nlist, nlist, state=state, owner="bob" if deny else "alice")
        other = mk_obj("SecretData", uid=2, owner="alice", names=["other"])
        e, s = mk_engine([o, other], identity=("alice", None), version=version, crypto=P.RecordingCrypto(),
                         session_cls=TxSession)
        if name is None:
            payload = P.mk(op, "1", version=version, code=codes[ci])
        else:
            payload = build_attr_payload(op, version, name, index if has_index else None, text, form)
        s.watch()
        req = mk_request([(getattr(OP, op), None, payload)], version=version)
        resp, _, _ = e.process_request(req, ["alice", None])
        reach()
        ok = resp.batch_items[0].result_status.value == enums.ResultStatus.SUCCESS
        return _shape_ok(s, ok)
    return h


def tx_create(creator, fix_split=None):
    """Create / Register / CreateKeyPair / DeriveKey: all rows of the new object(s) in one commit."""
    CA = enums.CryptographicAlgorithm

    def h(n0: str, n1: str, k_a: int, k_b: int, has_mask: bool, extra: int, split: int) -> bool:
        """
        post: _
        """
        if len(n0) > 1 or len(n1) > 1 or not (0 <= k_a <= 2 and 0 <= k_b <= 1 and 0 <= extra <= 3 and 0 <= split <= 2):
            return True
        if creator != "CREATE_KEY_PAIR" and (k_b or split):
            return True
        if fix_split is not None and split != fix_split:
            return True
        names_a = [n0, n1][:k_a]
        names_b = ["pb"][:k_b]
        M = enums.CryptographicUsageMask
        base = mk_obj("SymmetricKey", uid=1, owner="alice", state=ST.ACTIVE, masks=[M.DERIVE_KEY], names=["base"])
        e, s = mk_engine([base], identity=("alice", None), crypto=P.RecordingCrypto(), session_cls=TxSession)
        if creator == "CREATE":
            payload = P.mk("CREATE", template=_tmpl(names_a, CA.AES, 128, has_mask, extra))
        elif creator == "REGISTER":
            payload = P.mk("REGISTER", template=_tmpl(names_a, None, None, has_mask, extra))
        elif creator == "DERIVE_KEY":
            payload = P.mk("DERIVE_KEY", "1", template=_tmpl(names_a, CA.AES, 128, has_mask, extra))
        else:
            T = enums.Tags
            common = _tmpl([] if split else names_a, CA.RSA, 2048, has_mask, extra, tag=T.COMMON_TEMPLATE_ATTRIBUTE)
            pub = _tmpl(names_a if split == 1 else [], None, None, False, 0, tag=T.PUBLIC_KEY_TEMPLATE_ATTRIBUTE)
            priv = _tmpl(names_b if split else [], None, None, False, 0, tag=T.PRIVATE_KEY_TEMPLATE_ATTRIBUTE)
            payload = payloads.CreateKeyPairRequestPayload(common_template_attribute=common,
                                                           private_key_template_attribute=priv,
                                                           public_key_template_attribute=pub)
        s.watch()
        n_before = len(s.objs)
        resp, _, _ = e.process_request(mk_request([(getattr(OP, creator), None, payload)]), ["alice", None])
        reach()
        ok = resp.batch_items[0].result_status.value == enums.ResultStatus.SUCCESS
        if not _shape_ok(s, ok):
            return False
        if ok:
            want = 2 if creator == "CREATE_KEY_PAIR" else 1
            # whole objects: every new object has its identifier, owner and date in the committed state
            if len(s.committed) != n_before + want:
                return False
            for snap in s.committed[n_before:]:
                if snap["unique_identifier"] is None or snap["_owner"] != "alice" or not snap["initial_date"]:
                    return False
        return True
    return h


def factory_is_transactional():
    """(C): the session factory the real __init__ builds is an ordinary transactional one."""
    def h(dummy: bool) -> bool:
        """
        post: _
        """
        with NoTracing():
            t = stubs._template()
            f = t._data_store_session_factory
            kw = dict(getattr(f, "kw", {}))
            bind = kw.get("bind")
            opts = dict(bind.get_execution_options()) if bind is not None else {}
            eng_opts = dict(t._data_store.get_execution_options())
        reach()
        if kw.get("autocommit"):
            return False
        if kw.get("autoflush") is False and kw.get("expire_on_commit") is False and kw.get("twophase"):
            return False
        for o in (opts, eng_opts):
            if str(o.get("isolation_level", "")).upper() == "AUTOCOMMIT":
                return False
        return bind is t._data_store or not opts
    return h


def conditions(tier):
    thorough = tier == "thorough"
    out = []
    out.append(Cond("session-factory-transactional", "factory_is_transactional", {},
                    bounds="configuration of the sessionmaker and engine built by the real KmipEngine.__init__ "
                           "(concrete read-out: the assumption behind the TxSession model)", timeout=60, part="assumption"))
    kinds = ["SymmetricKey", "SecretData", "X509Certificate"] if not thorough else stubs.KINDS
    for op in ("ACTIVATE", "REVOKE", "DESTROY"):
        for k in kinds:
            out.append(Cond("tx-%s-%s" % (op, k), "tx_existing", dict(op=op, kind=k, version=[1, 2]),
                            bounds="%s on %s in any storable state, any revocation code, owner or not" % (op, k),
                            timeout=400, part="tx"))
    versions = [(1, 4), (2, 0)]
    for op in ("DELETE_ATTRIBUTE", "MODIFY_ATTRIBUTE", "SET_ATTRIBUTE"):
        for v in versions:
            if op == "SET_ATTRIBUTE" and v != (2, 0):
                continue
            for ni in range(len(ATTR_NAMES)):
                if v == (2, 0) and ATTR_NAMES[ni] == "x-custom":
                    continue
                if not thorough and ATTR_NAMES[ni] not in ("Name", "Object Group", "Application Specific Information",
                                                           "Sensitive"):
                    continue
                menu = None
                if op == "DELETE_ATTRIBUTE" and v == (2, 0):
                    menu = {"Name": ["n0", "zz"], "Object Group": ["g0", "zz"], "Application Specific Information": ["d0", "zz"]}.get(ATTR_NAMES[ni])
                out.append(Cond("tx-%s-%d.%d-%s" % (op, v[0], v[1], ATTR_NAMES[ni].replace(" ", "")), "tx_existing",
                                dict(op=op, kind="SymmetricKey", version=list(v), ni=ni, menu=menu),
                                bounds="%s (KMIP %d.%d form) of '%s' on a key with 0-2 names/groups/app-info; index "
                                       "[-1,2] or absent, text len<=1, form, owner or not" % (op, v[0], v[1], ATTR_NAMES[ni]),
                                timeout=400, part="tx"))
    for c in CREATORS:
        if c == "CREATE_KEY_PAIR":
            for sp in (0, 1, 2):
                out.append(Cond("tx-create-CREATE_KEY_PAIR-split%d" % sp, "tx_create", dict(creator=c, fix_split=sp),
                                bounds="CreateKeyPair, 0-2 names (text len<=1) common/public, 0-1 private, mask present "
                                       "or not, extra attribute none / policy / group / unsupported", timeout=600, part="tx"))
        else:
            out.append(Cond("tx-create-%s" % c, "tx_create", dict(creator=c),
                            bounds="%s, 0-2 names (text len<=1), mask present or not, extra attribute none / policy / "
                                   "group / unsupported" % c, timeout=600, part="tx"))
    return out
