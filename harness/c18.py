"""C18 - policies in force follow the policy files; built-in policies are untouchable.

1. monitor   real PolicyDirectoryMonitor (real __init__, scan_policies, initialize_tracking_structures,
             disassociate_policy_and_file, restore_or_delete_policy, get_json_files) over a FakeFS.
             A history of d events, each (file, new content) with file and content *symbolic* and the
             policy definitions opaque symbolic tokens; a scan after every event; after every scan the
             store must equal a reference model written from the statement.
2. parser    real read_policy_from_file / parse_policy on a JSON-like document whose shape is
             symbolic (selector ints choose dict / list / scalar at every level, valid / unknown names):
             valid documents parse to the reference result, everything else raises ValueError - the
             only exception the monitor survives.
"""
import os as real_os
import types

from kv import rt
from kv.rt import Cond, reach
from kv.stubs import NullLogger, NoTracing

from kmip.core import enums
from kmip.core import policy as cpolicy
from kmip.services.server import monitor as monitor_mod

FILES = ["/p/a.json", "/p/b.json", "/p/c.json"]
ABSENT, INVALID, EMPTY, P, Q, PQ, RESERVED = range(7)
CONTENT_NAMES = ["absent", "invalid", "{}", "{p}", "{q}", "{p,q}", "{default,p}"]


class ProxyDict(dict):
    """The policy store is a multiprocessing DictProxy: keys()/items()/values() return *lists*
    (snapshots), so the monitor may pop entries while iterating over keys()."""

    def keys(self):
        return list(dict.keys(self))

    def items(self):
        return list(dict.items(self))

    def values(self):
        return list(dict.values(self))


class FakeFS(object):
    def __init__(self):
        self.content = {}        # path -> dict name->definition, or None when not a valid document
        self.mtime = {}
        self.reads = []

    def listdir(self, p):
        return [real_os.path.basename(f) for f in sorted(self.content)] + ["notes.txt", "a.json.bak"]

    def getmtime(self, f):
        return self.mtime[f]

    def read_policy_from_file(self, f):
        self.reads.append(f)
        c = self.content[f]
        if c is None:
            raise ValueError("not a policy document")
        return dict(c)


def _mk_monitor(fs, store):
    with NoTracing():
        monitor_mod.signal = types.SimpleNamespace(signal=lambda *a: None, SIGINT=2, SIGTERM=15)
        monitor_mod.os = types.SimpleNamespace(listdir=fs.listdir, path=types.SimpleNamespace(
            getmtime=fs.getmtime, join=real_os.path.join))
        monitor_mod.operation_policy = types.SimpleNamespace(read_policy_from_file=fs.read_policy_from_file)
        monitor_mod.time = types.SimpleNamespace(time=lambda: 1500000000.0, sleep=lambda s: None)
        m = monitor_mod.PolicyDirectoryMonitor("/p", store, live_monitoring=False)
        m.logger = NullLogger()
    return m


def _content(sel, tok_p, tok_q):
    if sel == INVALID:
        return None
    if sel == EMPTY:
        return {}
    if sel == P:
        return {"p": tok_p}
    if sel == Q:
        return {"q": tok_q}
    if sel == PQ:
        return {"p": tok_p, "q": tok_q}
    if sel == RESERVED:
        return {"default": tok_q, "p": tok_p}
    raise ValueError(sel)


def monitor_history(d, nfiles=2, prefix=(), cmenu=None):
    """prefix: concrete (file, content) events applied (each followed by a scan) before the d
    symbolic ones; their tokens are the constants 1000+i."""
    prefix = [tuple(x) for x in prefix]

    def h(f0: int, c0: int, f1: int, c1: int, f2: int, c2: int, f3: int, c3: int,
          t0: int, t1: int, t2: int, t3: int, dt0: int, dt1: int, dt2: int, dt3: int) -> bool:
        """
        post: _
        """
        fsel = [f0, f1, f2, f3][:d]
        csel = [c0, c1, c2, c3][:d]
        toks = [t0, t1, t2, t3][:d]
        dts = [dt0, dt1, dt2, dt3][:d]
        for i in range(d):
            if not (0 <= fsel[i] < nfiles and 0 <= csel[i] <= RESERVED and 1 <= dts[i] <= 5):
                return True
            if cmenu is not None and csel[i] not in cmenu:
                return True
        for i in range(d, 4):
            if [f0, f1, f2, f3][i] or [c0, c1, c2, c3][i] or [t0, t1, t2, t3][i] or [dt0, dt1, dt2, dt3][i]:
                return True
        fs = FakeFS()
        builtin = {"default": "DEFAULT-POLICY", "public": "PUBLIC-POLICY"}
        store = ProxyDict(builtin)
        store["leftover"] = "from a previous run"
        m = _mk_monitor(fs, store)
        if "leftover" in store:
            return False                      # start-up must drop everything but the built-ins
        # reference model: per file its last successfully loaded content and when it was loaded
        valid = {}
        loaded_at = {}
        clock = 0
        now = 10
        events = [(FILES[fi], ci, 1000 + k, 2000 + k, 1) for k, (fi, ci) in enumerate(prefix)]
        for i in range(d):
            f = None
            for k in range(nfiles):
                if fsel[i] == k:
                    f = FILES[k]
            events.append((f, csel[i], toks[i], toks[i] + 1, dts[i]))
        for (f, c, tp, tq, dt) in events:
            now = now + dt                    # file times advance with every change
            if c == ABSENT:
                if f in fs.content:
                    del fs.content[f]
                    del fs.mtime[f]
                valid.pop(f, None)
                loaded_at.pop(f, None)
            else:
                doc = _content(c, tp, tq)
                was_present = f in fs.content
                fs.content[f] = doc
                fs.mtime[f] = now
                if doc is not None:
                    clock += 1
                    valid[f] = {k: v for k, v in doc.items() if k not in ("default", "public")}
                    loaded_at[f] = clock
                elif not was_present:
                    valid.pop(f, None)
                    loaded_at.pop(f, None)
            m.scan_policies()
            # expected store
            want = dict(builtin)
            for name in ("p", "q"):
                best = None
                for g in valid:
                    if name in valid[g] and (best is None or loaded_at[g] > loaded_at[best]):
                        best = g
                if best is not None:
                    want[name] = valid[best][name]
            got = dict(store)
            if got != want:
                return False
        reach()
        return True
    return h


# ---- parser -----------------------------------------------------------------------------------------

def pick(seq, i):
    """seq[i] for a symbolic i without symbolic indexing (which would yield a symbolic object)."""
    for k in range(len(seq)):
        if i == k:
            return seq[k]
    raise IndexError(i)


def _objpol(ot_sel, ops_sel, op_sel, perm_sel):
    ot = "CERTIFICATE" if ot_sel == 0 else ("SYMMETRIC_KEY" if ot_sel == 1 else "CERTIFICATES")
    if ops_sel == 1:
        return {ot: 5}
    if ops_sel == 2:
        return {ot: ["GET"]}
    if ops_sel == 3:
        return {ot: {}}
    op = "GET" if op_sel == 0 else ("LOCATE" if op_sel == 1 else "GETS")
    perm = pick(["ALLOW_ALL", "ALLOW_OWNER", "DISALLOW_ALL", "ALLOW_SOME", 5, None, ["ALLOW_ALL"]], perm_sel)
    return {ot: {op: perm}}


def _ref_objpol(ot_sel, ops_sel, op_sel, perm_sel):
    """reference parse, or None when the object policy is invalid"""
    if ot_sel == 2 or ops_sel in (1, 2):
        return None
    ot = enums.ObjectType.CERTIFICATE if ot_sel == 0 else enums.ObjectType.SYMMETRIC_KEY
    if ops_sel == 3:
        return {ot: {}}
    if op_sel == 2 or perm_sel >= 3:
        return None
    op = enums.Operation.GET if op_sel == 0 else enums.Operation.LOCATE
    perm = pick([enums.Policy.ALLOW_ALL, enums.Policy.ALLOW_OWNER, enums.Policy.DISALLOW_ALL], perm_sel)
    return {ot: {op: perm}}


def parser(form, fix=None):
    """fix: [has_preset, has_groups, junk_section] pinned per condition (form 0 is sliced).
    form 0: section form {preset, groups}; 1: direct object-type form; 2: shapes of the outer levels."""
    def h(top_sel: int, pol_sel: int, has_preset: bool, has_groups: bool, junk_section: bool, mixed: bool,
          preset_sel: int, groups_sel: int, ot_sel: int, ops_sel: int, op_sel: int, perm_sel: int,
          second: bool) -> bool:
        """
        post: _
        """
        if not (0 <= top_sel <= 3 and 0 <= pol_sel <= 4 and 0 <= preset_sel <= 4 and 0 <= groups_sel <= 4
                and 0 <= ot_sel <= 2 and 0 <= ops_sel <= 3 and 0 <= op_sel <= 2 and 0 <= perm_sel <= 6):
            return True
        if form == 0 and (top_sel != 0 or pol_sel != 0):
            return True
        if fix is not None and (has_preset != fix[0] or has_groups != fix[1] or junk_section != fix[2]):
            return True
        if form == 1 and (top_sel != 0 or pol_sel != 0 or has_preset or has_groups or junk_section or mixed
                          or preset_sel or groups_sel):
            return True
        if form == 2 and (has_preset or has_groups or junk_section or mixed or preset_sel or groups_sel
                          or ot_sel or ops_sel or op_sel or perm_sel):
            return True
        op = _objpol(ot_sel, ops_sel, op_sel, perm_sel)
        ref_op = _ref_objpol(ot_sel, ops_sel, op_sel, perm_sel)
        want = None            # reference: dict -> must parse to it; "reject" -> ValueError; "either" -> dict or ValueError
        if form == 1:
            policy = op
            want = "reject" if ref_op is None else {"p": {"preset": ref_op}}
        elif form == 0:
            policy = {}
            parsed = {}
            want = None
            bad = False
            loose = False
            if has_preset:
                pv = pick([op, 5, [1], "x", 0], preset_sel)
                policy["preset"] = pv
                if preset_sel == 0:
                    if ref_op is None:
                        bad = True
                    else:
                        parsed["preset"] = ref_op
                elif preset_sel == 4:
                    loose = True               # a falsy section is skipped by the reader: tolerated
                else:
                    bad = True
            if has_groups:
                gv = pick([{"g": op}, 5, [1], {"g": 5}, {}], groups_sel)
                policy["groups"] = gv
                if groups_sel == 0:
                    if ref_op is None:
                        bad = True
                    else:
                        parsed["groups"] = {"g": ref_op}
                elif groups_sel == 4:
                    loose = True
                else:
                    bad = True
            if junk_section:
                policy["presets"] = op
                bad = True
            if mixed:
                policy["CERTIFICATE"] = {"GET": "ALLOW_ALL"}
                if has_preset or has_groups or junk_section:
                    bad = True                 # sections and object types mixed: "unknown section"
                else:
                    # only an object-type key: this is the direct form
                    parsed = {"preset": {enums.ObjectType.CERTIFICATE: {enums.Operation.GET: enums.Policy.ALLOW_ALL}}}
            if not policy:
                want = {}                      # an empty policy is skipped
            elif bad:
                want = "reject"
            elif loose:
                want = "either"
            else:
                want = {"p": parsed}
        else:
            policy = pick([{"preset": {}}, 5, ["preset"], "preset", None], pol_sel)
            want = "reject" if pol_sel else "either"
        doc = {"p": policy}
        if second:
            doc["q"] = {"preset": {"CERTIFICATE": {"GET": "ALLOW_ALL"}}}
            if isinstance(want, dict):
                want = dict(want)
                want["q"] = {"preset": {enums.ObjectType.CERTIFICATE: {enums.Operation.GET: enums.Policy.ALLOW_ALL}}}
        if form == 2 and top_sel:
            doc = pick([[doc], "p", 5], top_sel - 1)
            want = "reject"

        class _F(object):
            def __enter__(self):
                return self

            def __exit__(self, *a):
                return False

            def read(self):
                return "<document>"
        cpolicy.open = lambda path, mode="r": _F()
        cpolicy.json = types.SimpleNamespace(loads=lambda s: doc)
        try:
            got = cpolicy.read_policy_from_file("/p/a.json")
        except ValueError:
            reach()
            return want in ("reject", "either")
        reach()
        if want == "reject":
            return False
        if want == "either":
            return isinstance(got, dict)
        return got == want
    return h


def json_errors():
    """The real json module on undecodable text: read_policy_from_file must turn it into ValueError."""
    texts = ["", "{", "[1,", "{'p': 1}", "nul", "{\"p\": {\"preset\": }}", "\ufeff{}"]

    def h(i: int) -> bool:
        """
        post: _
        """
        if not (0 <= i < len(texts)):
            return True
        text = None
        for k in range(len(texts)):
            if i == k:
                text = texts[k]

        class _F(object):
            def __enter__(self):
                return self

            def __exit__(self, *a):
                return False

            def read(self):
                return text
        import json as real_json
        cpolicy.open = lambda path, mode="r": _F()
        cpolicy.json = real_json
        try:
            cpolicy.read_policy_from_file("/p/a.json")
        except ValueError:
            reach()
            return True
        return False
    return h


def conditions(tier):
    thorough = tier == "thorough"
    out = []
    hist_bounds = ("%d symbolic events over %d files x contents {absent, invalid, {}, {p}, {q}, {p,q}, {default,p}}; "
                   "definitions are fresh symbolic tokens; file times strictly increase by 1..5 per change; a scan "
                   "after every event and the store compared with the reference after every scan")
    out.append(Cond("monitor-d3-2files", "monitor_history", dict(d=3, nfiles=2), bounds=hist_bounds % (3, 2),
                    timeout=1500, part="monitor"))
    # depth 4 (and 3 files) behind concrete prefixes that set up shadowing
    prefixes = [
        ("shadow-ab", [(0, P), (1, P)]),
        ("shadow-ab-pq", [(0, PQ), (1, P)]),
        ("shadow-abc", [(0, P), (1, P), (2, P)]),
    ]
    for name, pre in prefixes:
        nf = 3 if any(f == 2 for f, _ in pre) else 2
        out.append(Cond("monitor-%s-d2" % name, "monitor_history", dict(d=2, nfiles=nf, prefix=[list(x) for x in pre]),
                        bounds="concrete prefix %s then " % ([(FILES[f], CONTENT_NAMES[c]) for f, c in pre],)
                               + hist_bounds % (2, nf), timeout=1500, part="monitor"))
    # deeper histories in the quick tier: three symbolic events behind the basic shadowing prefix, and
    # behind the 3-file "edit under shadow, shadow again" prefix with a reduced content menu
    out.append(Cond("monitor-shadow-ab-d3", "monitor_history", dict(d=3, nfiles=2, prefix=[[0, P], [1, P]]),
                    bounds="concrete prefix [a.json {p}, b.json {p}] then " + hist_bounds % (3, 2), timeout=1500,
                    part="monitor"))
    out.append(Cond("monitor-shadow-ab-a-c-d3", "monitor_history",
                    dict(d=3, nfiles=3, prefix=[[0, P], [1, P], [0, P], [2, P]], cmenu=[ABSENT, EMPTY, P]),
                    bounds="concrete prefix [a.json {p}, b.json {p}, a.json edited {p}, c.json {p}] then 3 symbolic "
                           "events over 3 files x contents {absent, {}, {p}}", timeout=1500, part="monitor"))
    if thorough:
        for fi in range(2):
            for ci in range(RESERVED + 1):
                out.append(Cond("monitor-d4-first-%s-%s" % ("ab"[fi], CONTENT_NAMES[ci]), "monitor_history",
                                dict(d=3, nfiles=2, prefix=[[fi, ci]]),
                                bounds="first event (%s, %s) then " % (FILES[fi], CONTENT_NAMES[ci]) + hist_bounds % (3, 2),
                                timeout=3000, part="monitor"))
        out.append(Cond("monitor-d3-3files", "monitor_history", dict(d=3, nfiles=3), bounds=hist_bounds % (3, 3),
                        timeout=3000, part="monitor"))
        for name, pre in prefixes:
            nf = 3 if any(f == 2 for f, _ in pre) else 2
            if any(c.name == "monitor-%s-d3" % name for c in out):
                continue
            out.append(Cond("monitor-%s-d3" % name, "monitor_history",
                            dict(d=3, nfiles=nf, prefix=[list(x) for x in pre]),
                            bounds="concrete prefix %s then " % ([(FILES[f], CONTENT_NAMES[c]) for f, c in pre],)
                                   + hist_bounds % (3, nf), timeout=3000, part="monitor"))
    for a in (False, True):
        for b in (False, True):
            for c in (False, True):
                out.append(Cond("parser-form0-%d%d%d" % (a, b, c), "parser", dict(form=0, fix=[a, b, c]),
                                bounds="section form with preset %s, groups %s, unknown section %s; object-type key "
                                       "mixed in or not; preset value object policy / int / list / str / 0; groups "
                                       "value {g: policy} / int / list / {g: 5} / {}; object policy: valid or unknown "
                                       "type, operations dict / int / list / {}, valid or unknown operation, permission "
                                       "valid / unknown / int / null / list; optional second valid policy"
                                       % (a, b, c), timeout=900, part="parser"))
    for form in (1, 2):
        out.append(Cond("parser-form%d" % form, "parser", dict(form=form),
                        bounds=["section form: preset/groups/unknown section/object-type key present or not; preset "
                                "value object policy / int / list / str / 0; groups value {g: policy} / int / list / "
                                "{g: 5} / {}; object policy: valid or unknown type, operations dict / int / list / {}, "
                                "valid or unknown operation, permission valid / unknown / int / null / list; optional "
                                "second valid policy",
                                "direct object-type form with the same object-policy shapes",
                                "outer levels: top-level dict / list / str / int; policy value dict / int / list / str / "
                                "null"][form], timeout=900, part="parser"))
    out.append(Cond("parser-json-errors", "json_errors", {}, bounds="7 undecodable texts through the real json module",
                    timeout=300, part="parser"))
    return out
