"""C20 - secrets stay out of logs and error messages at the default log level.

Non-interference by self-composition: the same scenario is executed twice with two independent
symbolic secrets (key material, secret data, opaque value, plaintext, derived key, password) and
everything else equal; the observable outputs - every log record at INFO or above of the engine and
session loggers (message text; for logger.exception the exception text) and every Result Message -
must be identical.  A dependence lets the solver choose s1 != s2 that make a record differ.
Formatting (str.format, repr, hexlify) is left real: formatting is the subject.
"""
from kv import rt
from kv.rt import Cond, reach
from kv import stubs, sessstubs as SS, payloads as P, ttlv_ref as R
from kv.stubs import mk_engine, mk_obj, snapshot, NoTracing, NullLogger
from harness.c08 import mk_request

from kmip.core import attributes, enums, objects as cobjects, primitives, secrets, utils
from kmip.core import exceptions as kex
from kmip.core.messages import contents, messages, payloads
from kmip.services.server import session as session_mod

OP = enums.Operation
ST = enums.State
M = enums.CryptographicUsageMask
N = 8          # secret length in bytes


def _records(logger):
    out = []
    for level, msg in logger.records:
        out.append((level, str(msg)))
    return out


def _messages(resp):
    out = []
    for it in resp.batch_items:
        out.append(it.result_message.value if it.result_message is not None else None)
        out.append(it.result_status.value)
        out.append(it.result_reason.value if it.result_reason is not None else None)
    return out


class SecretCrypto(P.RecordingCrypto):
    """Recording backend whose outputs are the scenario's secret (a generated / derived key)."""

    def __init__(self, secret, fail=None):
        P.RecordingCrypto.__init__(self, out=secret, fail=fail)
        self.secret = secret

    def create_symmetric_key(self, algorithm, length):
        self._call("create_symmetric_key", (algorithm, length), {})
        return {"value": self.secret, "format": enums.KeyFormatType.RAW}

    def derive_key(self, *a, **k):
        self._call("derive_key", a, k)
        return self.secret


def _sym_key_secret(value, fmt=enums.KeyFormatType.RAW, length=N * 8):
    return secrets.SymmetricKey(key_block=cobjects.KeyBlock(
        key_format_type=cobjects.KeyFormatType(fmt),
        key_value=cobjects.KeyValue(key_material=cobjects.KeyMaterial(value)),
        cryptographic_algorithm=attributes.CryptographicAlgorithm(enums.CryptographicAlgorithm.AES),
        cryptographic_length=attributes.CryptographicLength(length)))


def _scenario_request(name, secret, sel, version):
    """-> (stored objects, crypto backend, request, requester)"""
    objs = []
    crypto = P.RecordingCrypto()
    user = "alice"
    tmpl = P.sym_template(alg=None, length=None, mask=[M.ENCRYPT])
    if name == "register-symmetric":
        fmt = [enums.KeyFormatType.RAW, enums.KeyFormatType.OPAQUE, enums.KeyFormatType.PKCS_1][sel % 3]
        length = N * 8 if sel < 3 else 64 * 8
        pl = payloads.RegisterRequestPayload(object_type=enums.ObjectType.SYMMETRIC_KEY, template_attribute=tmpl,
                                             managed_object=_sym_key_secret(secret, fmt, length))
        items = [(OP.REGISTER, None, pl)]
    elif name == "register-secret-data":
        sd = secrets.SecretData(
            secret_data_type=primitives.Enumeration(enums.SecretDataType, enums.SecretDataType.PASSWORD,
                                                    enums.Tags.SECRET_DATA_TYPE),
            key_block=cobjects.KeyBlock(
                key_format_type=cobjects.KeyFormatType([enums.KeyFormatType.OPAQUE, enums.KeyFormatType.RAW][sel % 2]),
                key_value=cobjects.KeyValue(key_material=cobjects.KeyMaterial(secret))))
        pl = payloads.RegisterRequestPayload(object_type=enums.ObjectType.SECRET_DATA, template_attribute=tmpl,
                                             managed_object=sd)
        items = [(OP.REGISTER, None, pl)]
    elif name == "register-opaque":
        oo = secrets.OpaqueObject(
            opaque_data_type=secrets.OpaqueObject.OpaqueDataType(enums.OpaqueDataType.NONE),
            opaque_data_value=secrets.OpaqueObject.OpaqueDataValue(secret))
        ot = [enums.ObjectType.OPAQUE_DATA, enums.ObjectType.SYMMETRIC_KEY][sel % 2]      # type mismatch: a failure path
        pl = payloads.RegisterRequestPayload(object_type=ot, template_attribute=tmpl, managed_object=oo)
        items = [(OP.REGISTER, None, pl)]
    elif name == "get":
        owner = ["alice", "bob"][sel % 2]
        state = [ST.ACTIVE, ST.PRE_ACTIVE][(sel // 2) % 2]
        o = mk_obj("SymmetricKey", uid=1, owner=owner, state=state, masks=list(M), sym_value=secret)
        objs = [o, mk_obj("SymmetricKey", uid=2, owner="alice", state=ST.ACTIVE, masks=list(M))]
        wrap = None
        if sel >= 4:
            wrap = ["2", "3"][sel % 2]
            crypto = P.RecordingCrypto(fail=kex.CryptographicFailure("wrapping failed") if sel >= 6 else None)
        fmtsel = None if sel < 8 else enums.KeyFormatType.PKCS_8
        items = [(OP.GET, None, P.mk("GET", "1", wrap_uid=wrap, key_format_type=fmtsel))]
    elif name in ("encrypt", "decrypt", "sign", "mac", "signature-verify"):
        kind = {"sign": "PrivateKey", "signature-verify": "PublicKey"}.get(name, "SymmetricKey")
        state = [ST.ACTIVE, ST.PRE_ACTIVE, ST.COMPROMISED][sel % 3]
        masks = list(M) if sel < 3 else []
        objs = [mk_obj(kind, uid=1, owner="alice", state=state, masks=masks)]
        if sel >= 6:
            crypto = P.RecordingCrypto(fail=kex.CryptographicFailure("backend refused"))
        opn = name.upper().replace("-", "_")
        items = [(getattr(OP, opn), None, P.mk(opn, "1", data=secret))]
    elif name == "derive-then-idless":
        base = mk_obj("SymmetricKey", uid=1, owner="alice", state=ST.ACTIVE, masks=[M.DERIVE_KEY])
        objs = [base]
        crypto = SecretCrypto(secret)
        follower = ["GET_ATTRIBUTES", "GET_ATTRIBUTE_LIST", "GET", "DESTROY"][sel % 4]
        items = [(OP.DERIVE_KEY, b"1", P.mk("DERIVE_KEY", "1", template=P.sym_template(length=N * 8, mask=[M.ENCRYPT]))),
                 (getattr(OP, follower), b"2", P.mk(follower, None))]
    elif name == "create-then-idless":
        crypto = SecretCrypto(secret)
        follower = ["GET_ATTRIBUTES", "ACTIVATE", "GET", "DESTROY"][sel % 4]
        length = [N * 8, 7][sel // 4 % 2]
        items = [(OP.CREATE, b"1", P.mk("CREATE", template=P.sym_template(length=length, mask=[M.ENCRYPT]))),
                 (getattr(OP, follower), b"2", P.mk(follower, None))]
    elif name == "derive-from-secret":
        base = mk_obj("SymmetricKey", uid=1, owner="alice", state=[ST.ACTIVE, ST.DEACTIVATED][sel % 2],
                      masks=[M.DERIVE_KEY] if sel < 2 else [], sym_value=secret)
        objs = [base]
        crypto = P.RecordingCrypto(fail=kex.InvalidField("bad derivation") if sel >= 4 else None)
        items = [(OP.DERIVE_KEY, None, P.mk("DERIVE_KEY", "1"))]
    else:
        raise ValueError(name)
    return objs, crypto, mk_request(items, version=version, bec=enums.BatchErrorContinuationOption.CONTINUE), user


SCENARIOS = {"register-symmetric": 6, "register-secret-data": 2, "register-opaque": 2, "get": 10, "encrypt": 9,
             "decrypt": 9, "sign": 9, "mac": 9, "signature-verify": 9, "derive-then-idless": 4, "create-then-idless": 8,
             "derive-from-secret": 6}


def ni_engine(scenario, sel, version):
    version = tuple(version)

    def h(s1: bytes, s2: bytes) -> bool:
        """
        post: _
        """
        if len(s1) != N or len(s2) != N or s1 == s2:
            return True             # equal secrets trivially agree; s1 != s2 keeps any realisation honest
        obs = []
        for secret in (s1, s2):
            objs, crypto, req, user = _scenario_request(scenario, secret, sel, version)
            e, store = mk_engine(objs, identity=(None, None), version=version, crypto=crypto)
            try:
                resp, _, _ = e.process_request(req, [user, None])
                msgs = _messages(resp)
            except Exception as ex:
                msgs = ["EXC", type(ex).__name__, str(ex)]
            obs.append((_records(e._logger), msgs))
        reach()
        return obs[0] == obs[1]
    return h


# ---- session level: the request *bytes* carry the secret -----------------------------------------------

def _register_bytes(secret, shape, version):
    """shape 0: well-formed Register; 1: key material as a Structure (transparent key: not decodable by
    this library); 2: key block declares the wrong length; 3: truncated by 8 bytes (header length kept
    consistent); 4: managed object tag replaced (unknown structure)."""
    v = tuple(version)
    tmpl = P.sym_template(alg=None, length=None, mask=[M.ENCRYPT])
    if shape == 1:
        kms = cobjects.KeyMaterialStruct()
        inner = utils.BytearrayStream()
        primitives.ByteString(secret, enums.Tags.KEY).write(inner)
        kms.data = utils.BytearrayStream(inner.buffer)
        kv = cobjects.KeyValue()
        kv.key_material = kms             # the writer emits it; only the reader's validation refuses it
        kb = cobjects.KeyBlock(
            key_format_type=cobjects.KeyFormatType(enums.KeyFormatType.TRANSPARENT_SYMMETRIC_KEY),
            key_value=kv,
            cryptographic_algorithm=attributes.CryptographicAlgorithm(enums.CryptographicAlgorithm.AES),
            cryptographic_length=attributes.CryptographicLength(N * 8))
        mo = secrets.SymmetricKey(key_block=kb)
    else:
        mo = _sym_key_secret(secret, enums.KeyFormatType.RAW, N * 8 if shape != 2 else 24)
    pl = payloads.RegisterRequestPayload(object_type=enums.ObjectType.SYMMETRIC_KEY, template_attribute=tmpl,
                                         managed_object=mo)
    req = mk_request([(OP.REGISTER, None, pl)], version=v)
    st = utils.BytearrayStream()
    req.write(st, kmip_version=stubs.KMIP_VERSION[v])
    buf = st.buffer
    if shape == 3:
        body = buf[8:len(buf) - 8]
        buf = buf[:4] + bytes(R.be(len(body), 4)) + body
    if shape == 4:
        # the last structure of the message is the key value's enclosing chain; damage the type byte of the
        # batch item's payload structure
        buf = buf[:8 + 3] + bytes([0x09]) + buf[8 + 4:]
    return buf


def ni_session(shape, version, cert_ok):
    version = tuple(version)

    def h(s1: bytes, s2: bytes) -> bool:
        """
        post: _
        """
        if len(s1) != N or len(s2) != N or s1 == s2:
            return True             # equal secrets trivially agree; s1 != s2 keeps any realisation honest
        obs = []
        for secret in (s1, s2):
            buf = _register_bytes(secret, shape, version)
            e, store = mk_engine([], version=version, crypto=P.RecordingCrypto())
            cert = SS.FakeCert(["alice"], [SS.CLIENT_AUTH] if cert_ok else [SS.SERVER_AUTH])
            conn = SS.FakeConnection(buf, cert=cert)
            s = SS.mk_session(e, conn)
            try:
                s._handle_message_loop()
            except Exception as ex:
                conn.sent.append(("EXC %s %s" % (type(ex).__name__, ex)).encode())
            # the answer's result messages, read with the reference walker (no PyKMIP reader involved)
            out = bytes(conn.sent[0]) if conn.sent else b""
            vals = R.leaf_values(out) if out[:1] == b"\x42" else {}
            msgs = vals.get(enums.Tags.RESULT_MESSAGE.value, [])
            obs.append((_records(e._logger), _records(s._logger), msgs))
        reach()
        return obs[0] == obs[1]
    return h


def ni_credentials(version):
    """Username/password credentials in the request header."""
    version = tuple(version)

    def h(p1: str, p2: str, bad_device: bool) -> bool:
        """
        post: _
        """
        if len(p1) != 3 or len(p2) != 3 or p1 == p2:
            return True
        for ch in p1 + p2:
            if not (33 <= ord(ch) <= 126):
                return True
        obs = []
        for pw in (p1, p2):
            cred = cobjects.Credential(
                credential_type=enums.CredentialType.USERNAME_AND_PASSWORD,
                credential_value=cobjects.UsernamePasswordCredential(username="alice", password=pw))
            req = mk_request([(OP.QUERY, None, P.mk("QUERY"))], version=version)
            req.request_header.authentication = contents.Authentication(credentials=[cred])
            st = utils.BytearrayStream()
            req.write(st, kmip_version=stubs.KMIP_VERSION[version])
            buf = st.buffer
            if bad_device:
                buf = buf[:8 + 3] + bytes([0x09]) + buf[8 + 4:]
            e, store = mk_engine([], version=version)
            conn = SS.FakeConnection(buf, cert=SS.FakeCert(["alice"], [SS.CLIENT_AUTH]))
            s = SS.mk_session(e, conn)
            s._handle_message_loop()
            out = bytes(conn.sent[0]) if conn.sent else b""
            vals = R.leaf_values(out)
            obs.append((_records(e._logger), _records(s._logger), vals.get(enums.Tags.RESULT_MESSAGE.value, [])))
        reach()
        return obs[0] == obs[1]
    return h


def conditions(tier):
    thorough = tier == "thorough"
    out = []
    versions = [(1, 2)] if not thorough else [(1, 0), (1, 2), (1, 4), (2, 0)]
    for sc in sorted(SCENARIOS):
        for sel in range(SCENARIOS[sc]):
            for v in versions:
                if v < (1, 2) and sc in ("encrypt", "decrypt", "sign", "mac", "signature-verify"):
                    continue
                out.append(Cond("ni-%s-%d-%d.%d" % (sc, sel, v[0], v[1]), "ni_engine", dict(scenario=sc, sel=sel, version=list(v)),
                                bounds="scenario %s variant %d under KMIP %d.%d executed twice with independent %d-byte "
                                       "secrets; observables: engine log records >= INFO and every result status / "
                                       "reason / message" % (sc, sel, v[0], v[1], N), timeout=600, part="engine"))
    for shape in range(5):
        for cert_ok in (True, False):
            out.append(Cond("ni-session-shape%d-%s" % (shape, "cert" if cert_ok else "nocert"), "ni_session",
                            dict(shape=shape, version=[1, 2], cert_ok=cert_ok),
                            bounds="Register request bytes carrying the secret key: well-formed / key material as "
                                   "structure / inconsistent length / truncated / damaged type byte; through the real "
                                   "session and engine; observables: session + engine log records >= INFO, result messages",
                            timeout=600, part="session"))
    out.append(Cond("ni-credentials", "ni_credentials", dict(version=[1, 2]),
                    bounds="Query with username/password credentials (password 3 printable characters) through the "
                           "real session, decodable or damaged", timeout=600, part="session"))
    return out
