"""C13 - well-formed requests never hit the General Failure catch-all.

Each condition = (operation, stored object kind, KMIP version); inside, the stored state,
the presence/shape of every payload field (selector ints) and value-like leaves (indices,
lengths, names) are symbolic.  The request goes through the real process_request, so the real
catch-all in _process_batch is the observation point.  A request counts as well-formed when
the real encoder and decoder accept it (checked on the failing path before reporting).
"""
from kv import rt
from kv.rt import Cond, reach
from kv import stubs, payloads as P
from kv.stubs import mk_engine, mk_obj, snapshot, NoTracing
from harness.c08 import mk_request, mk_rich

from kmip.core import enums, attributes, objects as cobjects, primitives, utils
from kmip.core import exceptions as kex
from kmip.core.messages import messages

OP = enums.Operation
ST = enums.State
M = enums.CryptographicUsageMask
T = enums.Tags
STATES = [ST.PRE_ACTIVE, ST.ACTIVE, ST.DEACTIVATED, ST.COMPROMISED]
AF = P.AF
ATYPE = enums.AttributeType


def wire_ok(req, version):
    """The request is well-formed iff the real codec writes it and reads it back."""
    try:
        kv = stubs.KMIP_VERSION[version]
        s = utils.BytearrayStream()
        req.write(s, kmip_version=kv)
        m = messages.RequestMessage()
        m.read(utils.BytearrayStream(s.buffer), kmip_version=kv)
        return True
    except Exception:
        return False


def run(e, op, payload, version):
    req = mk_request([(getattr(OP, op), None, payload)], version=version)
    resp, _, _ = e.process_request(req, ["alice", None])
    reach()
    for item in resp.batch_items:
        if item.result_reason is not None and item.result_reason.value == enums.ResultReason.GENERAL_FAILURE:
            if wire_ok(req, version):
                return False
    return True


def store(kind, si, all_masks=True, nlist=1):
    state = STATES[si]
    masks = bool(all_masks)
    n = int(nlist)
    with NoTracing():          # everything below is concrete on this path
        o = mk_rich(kind, n, n, n, state=state)
        if hasattr(o, "cryptographic_usage_masks"):
            o.cryptographic_usage_masks = list(M) if masks else []
        second = mk_obj("SecretData", uid=2, owner="alice", names=["s"], state=ST.ACTIVE, masks=list(M))
        wrapper = mk_obj("SymmetricKey", uid=3, owner="alice", names=["w"], state=ST.ACTIVE, masks=[M.WRAP_KEY])
    return [o, second, wrapper]


UIDS = ["1", "2", "9", None]          # stored object, second object, unknown, absent (placeholder is None)
NAMES = ["Name", "Object Group", "Application Specific Information", "Sensitive", "State", "Link",
         "Cryptographic Parameters", "Custom Attribute", "Contact Information", "Usage Limits",
         "Cryptographic Length", "x-custom", "Digest", "Operation Policy Name"]


def simple(op, kind, version):
    """Get / GetAttributes / GetAttributeList / Activate / Revoke / Destroy."""
    version = tuple(version)
    codes = list(enums.RevocationReasonCode)
    fmts = [None, enums.KeyFormatType.RAW, enums.KeyFormatType.PKCS_1, enums.KeyFormatType.OPAQUE]

    def h(si: int, ui: int, a: int, b: int, masks: bool) -> bool:
        """
        post: _
        """
        if not (0 <= si < 4 and 0 <= ui < len(UIDS) and 0 <= a < 8 and 0 <= b < 6):
            return True
        if op != "GET" and b >= 4:
            return True
        e, s = mk_engine(store(kind, si, masks), version=version, crypto=P.RecordingCrypto())
        uid = UIDS[ui]
        if op == "GET":
            if not (a < len(fmts)):
                return True
            # wrapping key: none / an object that is not a key / unknown / none / a usable one (Active,
            # WrapKey bit) / a usable one named without cryptographic parameters
            wrap = None
            for k_, w_ in enumerate([None, "2", "9", None, "3", "3"]):
                if b == k_:
                    wrap = w_
            payload = P.mk(op, uid, version=version, key_format_type=fmts[a], wrap_uid=wrap)
            if b == 5:
                payload.key_wrapping_specification.encryption_key_information.cryptographic_parameters = None
        elif op == "GET_ATTRIBUTES":
            names = [None, [], ["Name"], ["x-custom"], ["Name", "x-custom", "State"], ["Link"],
                     ["Operation Policy Name"], ["Sensitive", "Digest"]][a]
            payload = P.mk(op, uid, version=version, names=names)
        elif op == "REVOKE":
            if not (a < len(codes)):
                return True
            payload = P.mk(op, uid, version=version, code=codes[a])
        else:
            if a or b:
                return True
            payload = P.mk(op, uid, version=version)
        return run(e, op, payload, version)
    return h


def attr_ops(op, kind, version, ni):
    version = tuple(version)
    name = NAMES[ni]
    v2 = version >= (2, 0)
    from harness.c15 import attr_value, current_value

    def h(si: int, ui: int, index: int, has_index: bool, nlist: int, text: str, form2: int, cur_sel: int) -> bool:
        """
        post: _
        """
        if not (0 <= si < 4 and 0 <= ui < 2 and -2 <= index <= 3 and 0 <= nlist <= 2 and len(text) <= 1
                and 0 <= form2 <= 1 and 0 <= cur_sel <= 2):
            return True
        if si and nlist:
            return True                     # state and list size are independent dimensions
        if v2 and (has_index or index):
            return True
        if not v2 and (form2 or cur_sel):
            return True
        objs = store(kind, si, True, nlist)
        e, s = mk_engine(objs, version=version)
        uid = ["1", "9"][ui]
        idx = index if has_index else None
        before = snapshot(objs[0])
        try:
            val = attr_value(name, text, True)
            if not v2:
                if op == "DELETE_ATTRIBUTE":
                    payload = P.mk(op, uid, version=version, attr_name=name, attr_index=idx)
                else:
                    a = cobjects.Attribute(
                        attribute_name=cobjects.Attribute.AttributeName(name),
                        attribute_index=cobjects.Attribute.AttributeIndex(idx) if idx is not None else None,
                        attribute_value=val)
                    payload = P.mk(op, uid, version=version, attribute=a)
            else:
                if op == "DELETE_ATTRIBUTE":
                    if form2 == 0:
                        payload = P.mk(op, uid, version=version, attr_value=current_value(name, before, cur_sel))
                    else:
                        payload = P.mk(op, uid, version=version, reference=True, attr_name=name)
                elif op == "MODIFY_ATTRIBUTE":
                    cur = current_value(name, before, cur_sel) if form2 == 0 else None
                    payload = P.mk(op, uid, version=version, current=cur, new=val)
                else:
                    payload = P.mk(op, uid, version=version, new=val)
        except (TypeError, ValueError):
            return True                    # the library refuses to build this request: not well-formed
        return run(e, op, payload, version)
    return h


def crypto_ops(op, kind, version, with_failures=False):
    version = tuple(version)

    def h(si: int, ui: int, psel: int, dsel: int, masks: bool, fail: int) -> bool:
        """
        post: _
        """
        if not (0 <= si < 4 and 0 <= ui < len(UIDS) and 0 <= psel <= 3 and 0 <= dsel <= 2 and 0 <= fail <= 2):
            return True
        if fail and not with_failures:
            return True
        failure = [None, kex.InvalidField("bad parameter"), kex.CryptographicFailure("backend failed")][fail]
        e, s = mk_engine(store(kind, si, masks), version=version, crypto=P.RecordingCrypto(fail=failure))
        uid = UIDS[ui]
        params = [None, P.cparams(), attributes.CryptographicParameters(),
                  P.cparams(cryptographic_algorithm=enums.CryptographicAlgorithm.HMAC_SHA256)][psel]
        data = [b"\x00" * 16, b"", None][dsel]
        kw = dict(params=params)
        if op == "MAC":
            kw["data"] = data
            payload = P.mk(op, uid, version=version, **kw)
        else:
            if data is not None:
                kw["data"] = data
            payload = P.mk(op, uid, version=version, **kw)
            if data is None:
                payload.data = None
        return run(e, op, payload, version)
    return h


LENGTHS = [0, 8, 12, 128, 256]


def derive(kind, version, part="objects"):
    """part 'objects': identifier list x derivation parameters x mask x state symbolic;
    part 'template': template shape x derived type x cryptographic length symbolic."""
    version = tuple(version)

    def h(si: int, usel: int, dsel: int, tsel: int, osel: int, masks: bool, li: int) -> bool:
        """
        post: _
        """
        if not (0 <= si < 4 and 0 <= usel <= 4 and 0 <= dsel <= 3 and 0 <= tsel <= 3 and 0 <= osel <= 2):
            return True
        if not (0 <= li < len(LENGTHS)):
            return True
        if part == "objects":
            if tsel or osel or li != 3:
                return True
        else:
            if si or usel != 1 or dsel or not masks:
                return True
        length = LENGTHS[li]
        e, s = mk_engine(store(kind, si, masks), version=version, crypto=P.RecordingCrypto())
        uids = [[], ["1"], ["1", "2"], ["9"], ["2", "1"]][usel]
        dparams = [
            attributes.DerivationParameters(cryptographic_parameters=P.cparams(), derivation_data=b"\x01", salt=b"\x02"),
            attributes.DerivationParameters(),
            attributes.DerivationParameters(cryptographic_parameters=attributes.CryptographicParameters()),
            attributes.DerivationParameters(cryptographic_parameters=P.cparams(), iteration_count=10),
        ][dsel]
        if tsel == 1:
            tmpl = P.sym_template(length=None, mask=[M.ENCRYPT])
        elif tsel == 2:
            tmpl = P.sym_template(alg=None, length=length, mask=[M.ENCRYPT])
        elif tsel == 3:
            tmpl = P.template([])
        else:
            tmpl = P.sym_template(length=length, mask=[M.ENCRYPT])
        otype = [enums.ObjectType.SYMMETRIC_KEY, enums.ObjectType.SECRET_DATA, enums.ObjectType.CERTIFICATE][osel]
        payload = P.mk("DERIVE_KEY", None, version=version, uids=uids, dparams=dparams, template=tmpl,
                       object_type=otype)
        return run(e, "DERIVE_KEY", payload, version)
    return h


CLENGTHS = [0, 1, 8, 128, 256, 2048]


def create_ops(op, version, part="key"):
    """part 'key': algorithm x length x presence flags; part 'attrs': names x object type x extra."""
    version = tuple(version)

    def h(alg_sel: int, li: int, has_len: bool, has_mask: bool, name_n: int, osel: int, extra: int) -> bool:
        """
        post: _
        """
        if not (0 <= alg_sel <= 3 and 0 <= li < len(CLENGTHS) and 0 <= name_n <= 2 and 0 <= osel <= 2
                and 0 <= extra <= 4):
            return True
        if part == "key":
            if name_n or osel or extra:
                return True
        else:
            if alg_sel != (1 if op == "CREATE" else 2) or li != (3 if op == "CREATE" else 5) or not has_len \
                    or not has_mask:
                return True
        length = CLENGTHS[li]
        e, s = mk_engine([], version=version, crypto=P.RecordingCrypto())
        alg = [None, enums.CryptographicAlgorithm.AES, enums.CryptographicAlgorithm.RSA,
               enums.CryptographicAlgorithm.HMAC_SHA256][alg_sel]
        more = [P.name_attr("k%d" % i, i) for i in range(name_n)]
        if extra == 1:
            more.append(AF.create_attribute(ATYPE.OPERATION_POLICY_NAME, "public"))
        elif extra == 2:
            more.append(AF.create_attribute(ATYPE.OBJECT_GROUP, "grp"))
        elif extra == 3 and version >= (1, 4):
            more.append(AF.create_attribute(ATYPE.SENSITIVE, True))
        elif extra == 4:
            more.append(AF.create_attribute(ATYPE.STATE, ST.ACTIVE))
        tmpl = P.sym_template(alg=alg, length=length if has_len else None,
                              mask=[M.ENCRYPT, M.DECRYPT] if has_mask else None, extra=more)
        if op == "CREATE":
            otype = [enums.ObjectType.SYMMETRIC_KEY, enums.ObjectType.PUBLIC_KEY, enums.ObjectType.TEMPLATE][osel]
            payload = P.mk(op, None, version=version, template=tmpl, object_type=otype)
        else:
            if osel:
                return True
            payload = P.mk(op, None, version=version, template=tmpl)
        return run(e, op, payload, version)
    return h


RLENGTHS = [0, 8, 128, 1024]


def register(kind, version):
    """Register of a secret of each kind; the Cryptographic Length in the key block and the one
    supplied in the template are drawn from a menu (the pie constructors format the value into
    their error text, which realises a symbolic int)."""
    version = tuple(version)

    def h(bi: int, ti: int, has_tlen: bool, has_mask: bool, name_n: int, otype_ok: bool) -> bool:
        """
        post: _
        """
        if not (0 <= bi < len(RLENGTHS) and 0 <= ti < len(RLENGTHS) and 0 <= name_n <= 1):
            return True
        from kmip.pie import factory as pfactory
        e, s = mk_engine([], version=version)
        with NoTracing():
            pie = stubs.mk_obj(kind)
            secret = pfactory.ObjectFactory().convert(pie)
        if hasattr(secret, "key_block") and secret.key_block.cryptographic_length is not None:
            secret.key_block.cryptographic_length = attributes.CryptographicLength(RLENGTHS[bi])
        elif bi:
            return True
        more = [P.name_attr("k%d" % i, i) for i in range(name_n)]
        tmpl = P.sym_template(alg=None, length=RLENGTHS[ti] if has_tlen else None,
                              mask=[M.ENCRYPT] if has_mask else None, extra=more)
        otype = pie.object_type if otype_ok else enums.ObjectType.TEMPLATE
        payload = P.mk("REGISTER", None, version=version, secret=secret, template=tmpl, object_type=otype)
        return run(e, "REGISTER", payload, version)
    return h


FILTERS = ["Name", "State", "Object Type", "Cryptographic Algorithm", "Cryptographic Length",
           "Cryptographic Usage Mask", "Operation Policy Name", "Object Group", "Application Specific Information",
           "Certificate Type", "Unique Identifier", "Sensitive", "Initial Date", "x-custom", "Link", "Digest",
           "Activation Date"]


def locate_attr(name, text, num):
    if name == "Name":
        return P.name_attr(text)
    if name == "State":
        return AF.create_attribute(ATYPE.STATE, ST.ACTIVE)
    if name == "Object Type":
        return AF.create_attribute(ATYPE.OBJECT_TYPE, enums.ObjectType.SYMMETRIC_KEY)
    if name == "Cryptographic Algorithm":
        return AF.create_attribute(ATYPE.CRYPTOGRAPHIC_ALGORITHM, enums.CryptographicAlgorithm.AES)
    if name == "Cryptographic Length":
        return AF.create_attribute(ATYPE.CRYPTOGRAPHIC_LENGTH, num)
    if name == "Cryptographic Usage Mask":
        return AF.create_attribute(ATYPE.CRYPTOGRAPHIC_USAGE_MASK, [M.ENCRYPT])
    if name == "Operation Policy Name":
        return AF.create_attribute(ATYPE.OPERATION_POLICY_NAME, text)
    if name == "Object Group":
        return AF.create_attribute(ATYPE.OBJECT_GROUP, text)
    if name == "Application Specific Information":
        return AF.create_attribute(ATYPE.APPLICATION_SPECIFIC_INFORMATION,
                                   {"application_namespace": "ns", "application_data": text})
    if name == "Certificate Type":
        return AF.create_attribute(ATYPE.CERTIFICATE_TYPE, enums.CertificateType.X_509)
    if name == "Unique Identifier":
        return AF.create_attribute(ATYPE.UNIQUE_IDENTIFIER, text)
    if name == "Sensitive":
        return AF.create_attribute(ATYPE.SENSITIVE, True)
    if name == "Initial Date":
        return AF.create_attribute(ATYPE.INITIAL_DATE, num)
    # names the server does not implement / does not know: a text value under that name
    return cobjects.Attribute(attribute_name=cobjects.Attribute.AttributeName(name),
                              attribute_value=primitives.TextString(text, T.ATTRIBUTE_VALUE))


def locate(fi, version, paging=False, kinds=None, seconds=None):
    version = tuple(version)
    name = FILTERS[fi]
    kinds = kinds or stubs.KINDS
    seconds = seconds if seconds is not None else list(range(len(FILTERS)))

    def h(kind_i: int, text: str, num: int, second: int, off: int, has_off: bool, mx: int, has_max: bool) -> bool:
        """
        post: _
        """
        if not (0 <= kind_i < len(kinds) and len(text) <= 5 and 0 <= num <= 2 and -1 <= second < len(seconds)):
            return True
        # Locate formats filter values into (discarded) DEBUG records, which realises symbolic
        # text one value per path: values come from menus
        text = ["", "n0", "g0", "d0", "1", "zz"][len(text)]
        num = [0, 128, 1500000000][num]
        if not (-1 <= off <= 2 and -1 <= mx <= 2):
            return True
        if paging:
            if second >= 0 or kind_i or text or num:
                return True
        else:
            if has_off or has_max or off or mx:
                return True
        objs = store(kinds[kind_i], 1)
        e, s = mk_engine(objs, version=version)
        try:
            attrs = [locate_attr(name, text, num)]
            if second >= 0:
                attrs.append(locate_attr(FILTERS[seconds[second]], text, num))
        except (TypeError, ValueError):
            return True
        payload = P.mk("LOCATE", None, version=version, attributes=attrs,
                       offset_items=off if has_off else None, maximum_items=mx if has_max else None)
        return run(e, "LOCATE", payload, version)
    return h


def misc(op, version):
    version = tuple(version)

    def h(a: int, b: int, major: int, minor: int) -> bool:
        """
        post: _
        """
        if not (0 <= a <= 3 and 0 <= b <= 6 and -1 <= major <= 3 and -1 <= minor <= 5):
            return True
        e, s = mk_engine([], version=version)
        if op == "QUERY":
            fns = list(enums.QueryFunction)
            sel = [[], fns[:1], fns, [fns[b % len(fns)]]][a]
            payload = P.mk(op, version=version, functions=sel)
        else:
            from kmip.core.messages import contents
            if b > 2:
                return True
            vs = [None, [], [contents.ProtocolVersion(major, minor)],
                  [contents.ProtocolVersion(1, 0), contents.ProtocolVersion(major, minor)]][a]
            payload = P.mk(op, version=version, versions=vs)
        return run(e, op, payload, version)
    return h


def batch_pair(creator):
    """[creating operation, ID-less follower(, ID-less GetAttributes)] through the real batch loop."""
    from harness import c08
    return c08.placeholder(creator, oracle="c13")


def header_fields(version):
    """Request header values a client may legally send: any 64-bit time stamp, any maximum response
    size, batch options - never an internal error."""
    version = tuple(version)

    def h(stamp: int, has_stamp: bool, mx: int, has_mx: bool, order: bool, beci: int, is_async: bool, has_async: bool) -> bool:
        """
        post: _
        """
        if not (-2 ** 63 <= stamp < 2 ** 63 and 0 <= mx < 2 ** 31 and 0 <= beci <= 3):
            return True
        e, s = mk_engine(store("SymmetricKey", 1), version=version, crypto=P.RecordingCrypto())
        bec = None
        for k, v in enumerate([None, enums.BatchErrorContinuationOption.STOP, enums.BatchErrorContinuationOption.CONTINUE,
                               enums.BatchErrorContinuationOption.UNDO]):
            if beci == k:
                bec = v
        req = mk_request([(OP.GET, None, P.mk("GET", "1", version=version))], version=version, bec=bec, order=order,
                         max_size=mx if has_mx else None, time_stamp=stamp if has_stamp else None)
        if has_async:
            from kmip.core.messages import contents
            req.request_header.asynchronous_indicator = contents.AsynchronousIndicator(is_async)
        try:
            resp, _, _ = e.process_request(req, ["alice", None])
        except kex.KmipError:
            reach()
            return True                       # a header-level refusal is a KMIP error (the session answers with it)
        reach()
        for item in resp.batch_items:
            if item.result_reason is not None and item.result_reason.value == enums.ResultReason.GENERAL_FAILURE:
                return False
        return True
    return h


def unknown_policy(op):
    """A stored object may name an operation policy the server does not (or no longer) have; requesters
    with and without group information must be refused cleanly."""
    def h(gi: int, si: int) -> bool:
        """
        post: _
        """
        if not (0 <= gi <= 2 and 0 <= si < 4):
            return True
        objs = store("SymmetricKey", si)
        objs[0].operation_policy_name = "retired"
        groups = None
        if gi == 1:
            groups = []
        elif gi == 2:
            groups = ["g1"]
        e, s = mk_engine(objs, version=(1, 2), crypto=P.RecordingCrypto())
        if op == "LOCATE":
            payload = P.mk("LOCATE")
        else:
            payload = P.mk(op, "1")
        req = mk_request([(getattr(OP, op), None, payload)], version=(1, 2))
        resp, _, _ = e.process_request(req, ["alice", groups])
        reach()
        for item in resp.batch_items:
            if item.result_reason is not None and item.result_reason.value == enums.ResultReason.GENERAL_FAILURE:
                return False
        return True
    return h


def backend_errors():
    """The real crypto engine's MAC with the backend primitives raising ValueError / TypeError /
    UnsupportedAlgorithm, or refusing the key size: only KMIP errors may come out (anything else
    would end in the General Failure catch-all)."""
    from harness import c06
    return c06.mac(oracle="c13")


def conditions(tier):
    thorough = tier == "thorough"
    out = []
    out.append(Cond("crypto-backend-errors-mac", "backend_errors", {},
                    bounds="CryptographyEngine.mac: 12 algorithms, key length 3/16/20/24, the HMAC/CMAC/algorithm "
                           "constructors behaving or raising ValueError/TypeError/UnsupportedAlgorithm", timeout=600,
                    part="crypto-backend"))
    for v in ([(1, 2), (2, 0)] if not thorough else stubs.VERSIONS):
        out.append(Cond("header-fields-%d.%d" % v, "header_fields", dict(version=list(v)),
                        bounds="request header: time stamp absent or any 64-bit value, maximum response size absent or any "
                               "31-bit value, batch order flag, continuation option absent/Stop/Continue/Undo, "
                               "asynchronous indicator absent/false/true", timeout=600, part="header"))
    for op in ("GET", "GET_ATTRIBUTES", "LOCATE", "DESTROY"):
        out.append(Cond("unknown-policy-%s" % op, "unknown_policy", dict(op=op),
                        bounds="%s while the stored object names a policy the server does not have; requester without "
                               "groups / with an empty group list / with a group; any stored state" % op, timeout=300,
                        part="policy"))
    from harness import c08 as _c08
    for creator in _c08.CREATORS:
        out.append(Cond("batch-%s" % creator, "batch_pair", dict(creator=creator),
                        bounds="batch [%s, ID-less follower among %s, optional ID-less GetAttributes]"
                               % (creator, _c08.FOLLOWERS), timeout=600, part="batch"))
    kinds = stubs.KINDS if thorough else ["SymmetricKey", "OpaqueObject", "X509Certificate"]
    versions = stubs.VERSIONS if thorough else [(1, 2)]
    for op in ("GET", "GET_ATTRIBUTES", "GET_ATTRIBUTE_LIST", "ACTIVATE", "REVOKE", "DESTROY"):
        for k in kinds:
            for v in (versions if thorough else [(1, 2), (2, 0)] if op == "GET_ATTRIBUTES" else [(1, 2)]):
                out.append(Cond("simple-%s-%s-%d.%d" % (op, k, v[0], v[1]), "simple", dict(op=op, kind=k, version=list(v)),
                                bounds="%s on %s, KMIP %d.%d; stored state (4), identifier existing/other/unknown/absent, "
                                       "operation parameter menu, mask full/empty - symbolic" % (op, k, v[0], v[1]),
                                timeout=600, part="handlers"))
    for op in ("DELETE_ATTRIBUTE", "MODIFY_ATTRIBUTE", "SET_ATTRIBUTE"):
        for v in ((1, 4), (2, 0)):
            if op == "SET_ATTRIBUTE" and v != (2, 0):
                continue
            for ni, name in enumerate(NAMES):
                if v == (2, 0) and name in ("x-custom", "Custom Attribute"):
                    continue
                for k in (kinds if thorough else ["SymmetricKey"]):
                    out.append(Cond("attr-%s-%d.%d-%s-%s" % (op, v[0], v[1], name.replace(" ", ""), k), "attr_ops",
                                    dict(op=op, kind=k, version=list(v), ni=ni),
                                    bounds="%s of '%s' (KMIP %d.%d form) on %s; state, identifier existing/unknown, "
                                           "index [-2,3]/absent, list sizes 0-2, text len<=1, form - symbolic"
                                           % (op, name, v[0], v[1], k), timeout=600, part="attributes"))
    right = {"ENCRYPT": "SymmetricKey", "DECRYPT": "SymmetricKey", "SIGN": "PrivateKey",
             "SIGNATURE_VERIFY": "PublicKey", "MAC": "SymmetricKey"}
    for op in ("ENCRYPT", "DECRYPT", "SIGN", "SIGNATURE_VERIFY", "MAC"):
        for k in (stubs.KINDS if thorough else sorted({right[op], "OpaqueObject", "X509Certificate"})):
            out.append(Cond("crypto-%s-%s" % (op, k), "crypto_ops",
                            dict(op=op, kind=k, version=[1, 2], with_failures=thorough),
                            bounds="%s with key object %s; state, identifier, cryptographic parameters "
                                   "absent/full/empty/HMAC, data full/empty/absent, mask full/empty%s - symbolic"
                                   % (op, k, ", backend ok/InvalidField/CryptographicFailure" if thorough else ""),
                            timeout=900, part="crypto"))
    for k in (stubs.KINDS if thorough else ["SymmetricKey", "OpaqueObject"]):
        for part in ("objects", "template"):
            if part == "template" and k != "SymmetricKey" and not thorough:
                continue
            out.append(Cond("derive-%s-%s" % (part, k), "derive", dict(kind=k, version=[1, 2], part=part),
                            bounds="DeriveKey with base object %s; slice '%s' (objects: identifier list of 0-2 entries x 4 "
                                   "derivation-parameter shapes x mask x state; template: 4 template shapes x derived "
                                   "type x length menu %r)" % (k, part, LENGTHS), timeout=900, part="derive"))
    for op in ("CREATE", "CREATE_KEY_PAIR"):
        for v in ([(1, 4)] if not thorough else versions):
            for part in ("key", "attrs"):
                out.append(Cond("create-%s-%s-%d.%d" % (op, part, v[0], v[1]), "create_ops",
                                dict(op=op, version=list(v), part=part),
                                bounds="%s slice '%s' (key: algorithm absent/AES/RSA/HMAC x length menu %r or absent x mask "
                                       "present?; attrs: 0-2 names x object type x one extra attribute of 5 kinds)"
                                       % (op, part, CLENGTHS), timeout=900, part="create"))
    for k in (stubs.KINDS if thorough else ["SymmetricKey", "PrivateKey", "SecretData", "OpaqueObject"]):
        out.append(Cond("register-%s" % k, "register", dict(kind=k, version=[1, 2]),
                        bounds="Register of a %s; key-block length and template length from menu %r, template "
                               "length/mask present?, 0-1 names, object type consistent?" % (k, RLENGTHS), timeout=600,
                        part="register"))
    rep = [FILTERS.index(n) for n in ("Name", "State", "x-custom", "Initial Date", "Cryptographic Length")]
    for fi, name in enumerate(FILTERS):
        groups = [[k] for k in stubs.KINDS] if thorough else [["SymmetricKey", "X509Certificate", "OpaqueObject"]]
        for g in groups:
            out.append(Cond("locate-%s-%s" % (name.replace(" ", ""), "+".join(g)), "locate",
                            dict(fi=fi, version=[1, 4], kinds=g, seconds=None if thorough else rep),
                            bounds="Locate with filter '%s' (+ optional second filter: %s) over stored %s; "
                                   "text from a 6-entry menu, number from a 3-entry menu" % (name, "any of %d kinds" % len(FILTERS) if thorough
                                                                  else "one of 5 representatives", "/".join(g)),
                            timeout=900, part="locate"))
    out.append(Cond("locate-paging", "locate", dict(fi=0, version=[1, 4], paging=True),
                    bounds="Locate with a Name filter; offset and maximum in [-1,2] or absent", timeout=600,
                    part="locate"))
    for op in ("QUERY", "DISCOVER_VERSIONS"):
        for v in [(1, 0), (1, 2), (2, 0)]:
            out.append(Cond("misc-%s-%d.%d" % (op, v[0], v[1]), "misc", dict(op=op, version=list(v)),
                            bounds="%s under KMIP %d.%d; function list shapes / version lists with symbolic "
                                   "major,minor" % (op, v[0], v[1]), timeout=300, part="misc"))
    return out
