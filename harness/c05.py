"""C05 - stored objects come back exactly as stored (Python legs; the SQL engine leg is trusted).

kwd        pie Key.key_wrapping_data: the 32 flattened columns <-> dictionary mapping, every field
           symbolic (presence, enumeration members, integers, booleans, bytes).
columns    pie/sqltypes TypeDecorators: process_result_value(process_bind_param(x)) == x for usage-mask
           lists (symbolic subsets of a bit window) and every member of every enumeration column type.
register   Register through the real engine (stub store), then Get and GetAttributes: the secret's
           bytes, type, algorithm, length, format, names, masks, sensitive flag and policy come back as
           supplied (value bytes, texts, mask window, flags symbolic).
readonly   Get (plain / wrapped), GetAttributes, GetAttributeList, Locate, Query never change a stored
           object or leave a pending change - so what is stored stays what was stored.
"""
from kv import rt
from kv.rt import Cond, reach
from kv import stubs, payloads as P
from kv.stubs import mk_engine, mk_obj, snapshot, NoTracing, TxSession
from harness.c08 import mk_request

from kmip.core import attributes, enums, objects as cobjects, primitives, secrets
from kmip.core import exceptions as kex
from kmip.core.messages import payloads
from kmip.pie import objects as pobjects
from kmip.pie import sqltypes

OP = enums.Operation
ST = enums.State
M = enums.CryptographicUsageMask
MASKS = list(M)

CP_FIELDS = [("block_cipher_mode", "enum", enums.BlockCipherMode), ("padding_method", "enum", enums.PaddingMethod),
             ("hashing_algorithm", "enum", enums.HashingAlgorithm), ("key_role_type", "enum", enums.KeyRoleType),
             ("digital_signature_algorithm", "enum", enums.DigitalSignatureAlgorithm),
             ("cryptographic_algorithm", "enum", enums.CryptographicAlgorithm), ("random_iv", "bool", None),
             ("iv_length", "int", None), ("tag_length", "int", None), ("fixed_field_length", "int", None),
             ("invocation_field_length", "int", None), ("counter_length", "int", None),
             ("initial_counter_value", "int", None)]


def _cp(present_a, present_b, e, n, f):
    """cryptographic parameters with the two fields a, b present (index 13 = none)"""
    d = {}
    for i, (k, kind, en) in enumerate(CP_FIELDS):
        if i == present_a or i == present_b:
            if kind == "enum":
                ms = list(en)
                d[k] = ms[0] if e == 0 else (ms[len(ms) // 2] if e == 1 else ms[-1])
            elif kind == "bool":
                d[k] = f
            else:
                d[k] = n
    return d


FRAMES = [(False, False, 0, False, False, 0), (True, True, 1, True, True, 2), (True, False, 2, False, True, 0),
          (False, True, 0, True, False, 1)]


def kwd(which, frame):
    """which: 'eki' / 'mski' - the side whose cryptographic parameters vary; frame: the surrounding fields"""
    fr = FRAMES[frame]

    def h(a: int, b: int, e: int, n: int, f: bool, has_uid: bool, other_uid: bool, wm: int, has_sig: bool,
          has_iv: bool, enc_opt: int) -> bool:
        """
        post: _
        """
        if not (0 <= a <= 13 and 0 <= b <= 13 and 0 <= e <= 2 and 0 <= n < 2 ** 31 and 0 <= wm <= 2 and 0 <= enc_opt <= 2):
            return True
        if (has_uid, other_uid, wm, has_sig, has_iv, enc_opt) != fr:
            return True
        side = {}
        if has_uid:
            side["unique_identifier"] = "7"
        cp = _cp(a, b, e, n, f)
        if cp:
            side["cryptographic_parameters"] = cp
        other = {"unique_identifier": "9", "cryptographic_parameters": {"hashing_algorithm": enums.HashingAlgorithm.SHA_256}} \
            if other_uid else {}
        value = {}
        if wm:
            value["wrapping_method"] = [enums.WrappingMethod.ENCRYPT, enums.WrappingMethod.MAC_SIGN][wm - 1]
        if side:
            value["encryption_key_information" if which == "eki" else "mac_signature_key_information"] = side
        if other:
            value["mac_signature_key_information" if which == "eki" else "encryption_key_information"] = other
        if has_sig:
            value["mac_signature"] = b"\x01"
        if has_iv:
            value["iv_counter_nonce"] = b"\x02"
        if enc_opt:
            value["encoding_option"] = [enums.EncodingOption.NO_ENCODING, enums.EncodingOption.TTLV_ENCODING][enc_opt - 1]
        with NoTracing():
            k = pobjects.SymmetricKey(enums.CryptographicAlgorithm.AES, 128, b"\x00" * 16)
        k.key_wrapping_data = value
        got = k.key_wrapping_data
        reach()

        # reference: what was supplied, field by field (absent == None == not reported)
        def flat(d):
            out = {}
            for kk, vv in (d or {}).items():
                if isinstance(vv, dict):
                    for k2, v2 in flat(vv).items():
                        out[kk + "." + k2] = v2
                elif vv is not None:
                    out[kk] = vv
            return out
        return flat(got) == flat(value)
    return h


def mask_column(lo):
    """UsageMaskType: list of masks <-> integer column; the six masks lo..lo+5 symbolic, others absent."""
    window = MASKS[lo:lo + 6]

    def h(b0: bool, b1: bool, b2: bool, b3: bool, b4: bool, b5: bool) -> bool:
        """
        post: _
        """
        bits = [b0, b1, b2, b3, b4, b5][:len(window)]
        for i in range(len(window), 6):
            if [b0, b1, b2, b3, b4, b5][i]:
                return True
        value = [m for m, b in zip(window, bits) if b]
        t = sqltypes.UsageMaskType()
        col = t.process_bind_param(value, None)
        back = t.process_result_value(col, None)
        reach()
        return sorted(x.value for x in back) == sorted(x.value for x in value) and isinstance(col, int)
    return h


def enum_column(enum_name):
    e = getattr(enums, enum_name)
    members = list(e)

    def h(i: int, absent: bool) -> bool:
        """
        post: _
        """
        if not (0 <= i < len(members)):
            return True
        t = sqltypes.EnumType(e)
        v = None
        if not absent:
            for k in range(len(members)):
                if i == k:
                    v = members[k]
        col = t.process_bind_param(v, None)
        back = t.process_result_value(col, None)
        reach()
        return back is v or back == v
    return h


def _secret(kind, value, alg_i, fmt_i):
    A = enums.CryptographicAlgorithm
    if kind == "SymmetricKey":
        return secrets.SymmetricKey(key_block=cobjects.KeyBlock(
            key_format_type=cobjects.KeyFormatType(enums.KeyFormatType.RAW),
            key_value=cobjects.KeyValue(key_material=cobjects.KeyMaterial(value)),
            cryptographic_algorithm=attributes.CryptographicAlgorithm([A.AES, A.TRIPLE_DES, A.HMAC_SHA256][alg_i]),
            cryptographic_length=attributes.CryptographicLength(len(value) * 8))), enums.ObjectType.SYMMETRIC_KEY
    if kind == "SecretData":
        return secrets.SecretData(
            secret_data_type=primitives.Enumeration(enums.SecretDataType, [enums.SecretDataType.PASSWORD,
                                                                            enums.SecretDataType.SEED][alg_i % 2],
                                                    enums.Tags.SECRET_DATA_TYPE),
            key_block=cobjects.KeyBlock(
                key_format_type=cobjects.KeyFormatType(enums.KeyFormatType.OPAQUE),
                key_value=cobjects.KeyValue(key_material=cobjects.KeyMaterial(value)))), enums.ObjectType.SECRET_DATA
    if kind == "OpaqueObject":
        return secrets.OpaqueObject(
            opaque_data_type=secrets.OpaqueObject.OpaqueDataType(enums.OpaqueDataType.NONE),
            opaque_data_value=secrets.OpaqueObject.OpaqueDataValue(value)), enums.ObjectType.OPAQUE_DATA
    raise ValueError(kind)


def register_get(kind, version, nbytes, fix_names=None):
    version = tuple(version)

    def h(value: bytes, alg_i: int, name0: str, name1: str, nnames: int, m0: bool, m1: bool, m2: bool,
          sens: bool, has_sens: bool, group: str, has_group: bool) -> bool:
        """
        post: _
        """
        if len(value) != nbytes or not (0 <= alg_i <= 2 and 0 <= nnames <= 2) or len(name0) > 1 or len(name1) > 1 \
                or len(group) > 1:
            return True
        if nnames == 2 and name0 == name1:
            return True                              # duplicate names are refused (not this property's subject)
        if fix_names is not None and nnames != fix_names:
            return True
        for ch in name0 + name1 + group:
            if not (33 <= ord(ch) <= 126):
                return True
        AT = enums.AttributeType
        masks = [m for m, b in zip([M.ENCRYPT, M.DECRYPT, M.WRAP_KEY], [m0, m1, m2]) if b]
        attrs = []
        names = [name0, name1][:nnames]
        for i, nm in enumerate(names):
            attrs.append(P.name_attr(nm, i))
        if masks and kind != "OpaqueObject":
            attrs.append(P.AF.create_attribute(AT.CRYPTOGRAPHIC_USAGE_MASK, masks))
        if has_sens and version >= (1, 4) and kind != "OpaqueObject":
            attrs.append(P.AF.create_attribute(AT.SENSITIVE, sens))
        if has_group:
            attrs.append(P.AF.create_attribute(AT.OBJECT_GROUP, group))
        secret, otype = _secret(kind, value, alg_i, 0)
        e, s = mk_engine([], identity=("alice", None), version=version, crypto=P.RecordingCrypto())
        pl = payloads.RegisterRequestPayload(object_type=otype, template_attribute=P.template(attrs), managed_object=secret)
        r1 = e._process_operation(OP.REGISTER, pl)
        uid = r1.unique_identifier
        r2 = e._process_operation(OP.GET, P.mk("GET", uid))
        reach()
        if r2.object_type != otype or r2.unique_identifier != uid:
            return False
        got = r2.secret
        if kind == "OpaqueObject":
            if got.opaque_data_value.value != value:
                return False
        else:
            kb = got.key_block
            if kb.key_value.key_material.value != value:
                return False
            if kind == "SymmetricKey":
                if kb.cryptographic_length.value != nbytes * 8:
                    return False
                if kb.cryptographic_algorithm.value != secret.key_block.cryptographic_algorithm.value:
                    return False
                if kb.key_format_type.value != enums.KeyFormatType.RAW:
                    return False
            else:
                if got.secret_data_type.value != secret.secret_data_type.value:
                    return False
        r3 = e._process_operation(OP.GET_ATTRIBUTES, P.mk("GET_ATTRIBUTES", uid, version=version))
        back = {}
        for a in r3.attributes:
            back.setdefault(a.attribute_name.value, []).append(a.attribute_value)
        got_names = [n.name_value.value for n in back.get("Name", [])]
        if got_names != names:
            return False
        if kind != "OpaqueObject":
            gm = back.get("Cryptographic Usage Mask")
            want = 0
            for m in masks:
                want += m.value
            have = gm[0].value if gm else 0
            if have != want:
                return False
        if has_sens and version >= (1, 4) and kind != "OpaqueObject":
            gs = back.get("Sensitive")
            if not gs or gs[0].value != sens:
                return False
        gg = [g.value for g in back.get("Object Group", [])]
        if gg != ([group] if has_group else []):
            return False
        if version < (2, 0):             # Operation Policy Name is deprecated in KMIP 2.0: not reported there (C16)
            pol = back.get("Operation Policy Name")
            if not pol or pol[0].value != "default":
                return False
        ot = back.get("Object Type")
        return bool(ot) and ot[0].value == otype
    return h


def factory_roundtrip(kind):
    """pie object -> core secret (ObjectFactory) -> TTLV -> core secret -> pie object: every attribute the
    pie class carries comes back (what Register stores and what Get hands out both pass through here)."""
    from kmip.pie import factory as pfactory
    from kmip.core import utils as cutils
    from kmip.core.factories import secrets as sfactory
    A = enums.CryptographicAlgorithm

    def h(value: bytes, n1: int, n2: int, n3: int, prime: int, has_prime: bool, mi: int, ai: int, fi: int) -> bool:
        """
        post: _
        """
        if len(value) != 16 or not (1 <= n1 <= 255 and 1 <= n2 <= 255 and 1 <= n3 <= 255 and prime in (2, 104729, 2 ** 61 - 1)
                                   and 0 <= mi <= 2 and 0 <= ai <= 1 and 0 <= fi <= 1):
            return True
        f = pfactory.ObjectFactory()
        if kind == "SymmetricKey":
            x = pobjects.SymmetricKey([A.AES, A.CAMELLIA][ai], 128, value)
        elif kind == "PublicKey":
            x = pobjects.PublicKey(A.RSA, 1024, value, [enums.KeyFormatType.PKCS_1, enums.KeyFormatType.X_509][fi])
        elif kind == "PrivateKey":
            x = pobjects.PrivateKey(A.RSA, 1024, value, [enums.KeyFormatType.PKCS_8, enums.KeyFormatType.PKCS_1][fi])
        elif kind == "SplitKey":
            method = [enums.SplitKeyMethod.XOR, enums.SplitKeyMethod.POLYNOMIAL_SHARING_GF_2_8,
                      enums.SplitKeyMethod.POLYNOMIAL_SHARING_PRIME_FIELD][mi]
            x = pobjects.SplitKey(A.AES, 128, value, split_key_parts=n1, key_part_identifier=n2, split_key_threshold=n3,
                                  split_key_method=method, prime_field_size=prime if has_prime else None)
        elif kind == "X509Certificate":
            x = pobjects.X509Certificate(value)
        elif kind == "SecretData":
            x = pobjects.SecretData(value, [enums.SecretDataType.PASSWORD, enums.SecretDataType.SEED][ai])
        else:
            x = pobjects.OpaqueObject(value, enums.OpaqueDataType.NONE)
        core = f.convert(x)
        st = cutils.BytearrayStream()
        try:
            core.write(st)
        except kex.InvalidField:
            return True                 # documented refusal (prime-field method without a prime field size)
        back = type(core)() if kind != "X509Certificate" else type(core)()
        back.read(cutils.BytearrayStream(st.buffer))
        y = f.convert(back)
        reach()
        if type(y) is not type(x) or y.value != x.value:
            return False
        for fld in ("cryptographic_algorithm", "cryptographic_length", "key_format_type", "data_type", "opaque_type",
                    "certificate_type", "split_key_parts", "key_part_identifier", "split_key_threshold",
                    "split_key_method", "prime_field_size"):
            if hasattr(x, fld) and getattr(y, fld) != getattr(x, fld):
                return False
        return True
    return h


def ckp_attributes(attr):
    """CreateKeyPair: an attribute given in the common template reaches each key unless that key's own
    template overrides it (symbolic presence in common / public / private)."""
    AT = enums.AttributeType

    def h(in_common: bool, in_public: bool, in_private: bool) -> bool:
        """
        post: _
        """
        T = enums.Tags

        def val(text):
            if attr == "Object Group":
                return [P.AF.create_attribute(AT.OBJECT_GROUP, text)]
            return [P.AF.create_attribute(AT.APPLICATION_SPECIFIC_INFORMATION,
                                          {"application_namespace": "ns", "application_data": text})]
        base = [P.AF.create_attribute(AT.CRYPTOGRAPHIC_ALGORITHM, enums.CryptographicAlgorithm.RSA),
                P.AF.create_attribute(AT.CRYPTOGRAPHIC_LENGTH, 2048),
                P.AF.create_attribute(AT.CRYPTOGRAPHIC_USAGE_MASK, [M.SIGN, M.VERIFY])]
        common = cobjects.TemplateAttribute(attributes=base + (val("c") if in_common else []),
                                            tag=T.COMMON_TEMPLATE_ATTRIBUTE)
        pub = cobjects.TemplateAttribute(attributes=val("u") if in_public else [], tag=T.PUBLIC_KEY_TEMPLATE_ATTRIBUTE)
        priv = cobjects.TemplateAttribute(attributes=val("r") if in_private else [], tag=T.PRIVATE_KEY_TEMPLATE_ATTRIBUTE)
        pl = payloads.CreateKeyPairRequestPayload(common_template_attribute=common, private_key_template_attribute=priv,
                                                  public_key_template_attribute=pub)
        e, s = mk_engine([], identity=("alice", None), crypto=P.RecordingCrypto())
        e._process_operation(OP.CREATE_KEY_PAIR, pl)
        reach()
        if len(s.objs) != 2:
            return False
        public = [o for o in s.objs if type(o).__name__ == "PublicKey"][0]
        private = [o for o in s.objs if type(o).__name__ == "PrivateKey"][0]

        def got(o):
            if attr == "Object Group":
                return [g.object_group for g in o.object_groups]
            return [a.application_data for a in o.app_specific_info]
        want_pub = ["u"] if in_public else (["c"] if in_common else [])
        want_priv = ["r"] if in_private else (["c"] if in_common else [])
        return got(public) == want_pub and got(private) == want_priv
    return h


def identifiers_autoincrement():
    """The assumption behind the stub store (identifiers are never issued twice) as declared by the
    real schema: the managed_objects table asks SQLite for AUTOINCREMENT keys."""
    def h(dummy: bool) -> bool:
        """
        post: _
        """
        with NoTracing():
            t = pobjects.ManagedObject.__table__
            flag = t.dialect_options["sqlite"].get("autoincrement", None) if "sqlite" in t.dialect_options else None
            pk = [c.name for c in t.primary_key.columns]
        reach()
        return bool(flag) and pk == ["uid"]
    return h


def readonly(op, kind):
    def h(si: int, uid_sel: int, wrap_sel: int, owner: bool, wrap_state: int) -> bool:
        """
        post: _
        """
        if not (0 <= si <= 3 and 0 <= uid_sel <= 2 and 0 <= wrap_sel <= 2 and 0 <= wrap_state <= 1):
            return True
        if op != "GET" and (wrap_sel or wrap_state):
            return True
        state = [ST.PRE_ACTIVE, ST.ACTIVE, ST.DEACTIVATED, ST.COMPROMISED][si]
        o = mk_obj(kind, uid=1, owner="alice" if owner else "bob", state=state, masks=list(M), names=["n0"])
        wk = mk_obj("SymmetricKey", uid=2, owner="alice", state=[ST.ACTIVE, ST.PRE_ACTIVE][wrap_state],
                    masks=[M.WRAP_KEY], names=["wk"])
        e, s = mk_engine([o, wk], identity=("alice", None), version=(1, 4), crypto=P.RecordingCrypto(),
                         session_cls=TxSession)
        s.watch()
        uid = [None, "1", "5"][uid_sel]
        if op == "GET":
            pl = P.mk("GET", uid, wrap_uid=[None, "2", "3"][wrap_sel])
            items = [(OP.GET, b"1", pl), (OP.ACTIVATE, b"2", P.mk("ACTIVATE", "2"))]     # a later item commits
        elif op == "LOCATE":
            items = [(OP.LOCATE, b"1", P.mk("LOCATE", attributes=[P.name_attr("n0")])), (OP.ACTIVATE, b"2", P.mk("ACTIVATE", "2"))]
        elif op == "QUERY":
            items = [(OP.QUERY, b"1", P.mk("QUERY")), (OP.ACTIVATE, b"2", P.mk("ACTIVATE", "2"))]
        else:
            items = [(getattr(OP, op), b"1", P.mk(op, uid, version=(1, 4))), (OP.ACTIVATE, b"2", P.mk("ACTIVATE", "2"))]
        before = snapshot(o)
        req = mk_request(items, version=(1, 4), bec=enums.BatchErrorContinuationOption.CONTINUE)
        e.process_request(req, ["alice", None])
        reach()
        # whatever the later item committed, the object addressed by the read-only operation is as stored
        idx = 0
        return snapshot(o) == before and s.committed[idx] == before
    return h


def conditions(tier):
    thorough = tier == "thorough"
    out = []
    for which in ("eki", "mski"):
        for fi in range(len(FRAMES)):
            out.append(Cond("kwd-%s-frame%d" % (which, fi), "kwd", dict(which=which, frame=fi),
                            bounds="key wrapping data dictionary, surrounding fields (own uid, other side, wrapping method, "
                                   "mac signature, iv, encoding option) = %s; 0-2 of the 13 cryptographic parameters of the "
                                   "%s side present (3 members per enumeration, any 31-bit integer, either boolean)"
                                   % (FRAMES[fi], which), timeout=900, part="wrapping-data"))
    for lo in range(0, len(MASKS), 6):
        out.append(Cond("column-usage-mask-%02d" % lo, "mask_column", dict(lo=lo),
                        bounds="every subset of masks %s" % [m.name for m in MASKS[lo:lo + 6]], timeout=300, part="columns"))
    from harness.c01 import enum_classes
    cols = ["CryptographicAlgorithm", "KeyFormatType", "State", "ObjectType", "CertificateType", "SecretDataType",
            "OpaqueDataType", "SplitKeyMethod", "WrappingMethod", "EncodingOption", "BlockCipherMode", "PaddingMethod",
            "HashingAlgorithm", "KeyRoleType", "DigitalSignatureAlgorithm"]
    for name in (enum_classes() if thorough else cols):
        out.append(Cond("column-enum-%s" % name, "enum_column", dict(enum_name=name),
                        bounds="every member of enums.%s and the absent value through EnumType" % name, timeout=300,
                        part="columns"))
    kinds = ["SymmetricKey", "SecretData", "OpaqueObject"]
    for k in kinds:
        for v in ([(1, 2), (1, 4), (2, 0)] if thorough else [(1, 4)]):
            for nb in ((8, 16, 32) if thorough else (16,)):
                if k != "SymmetricKey" and nb != 16:
                    continue
                for nn in (0, 1, 2):
                    out.append(Cond("register-get-%s-%d.%d-%dB-%dnames" % (k, v[0], v[1], nb, nn), "register_get",
                                    dict(kind=k, version=list(v), nbytes=nb, fix_names=nn),
                                    bounds="Register a %s with %d arbitrary value bytes, 3 algorithm/type members, %d "
                                           "names (1 printable character each), any subset of 3 usage masks, sensitive "
                                           "flag, object group; then Get and GetAttributes under KMIP %d.%d"
                                           % (k, nb, nn, v[0], v[1]), timeout=900, part="register-get"))
    for op in ("GET", "GET_ATTRIBUTES", "GET_ATTRIBUTE_LIST", "LOCATE", "QUERY"):
        for k in (["SymmetricKey", "SecretData"] if not thorough else stubs.KINDS):
            out.append(Cond("readonly-%s-%s" % (op, k), "readonly", dict(op=op, kind=k),
                            bounds="%s addressing a stored %s in any state (identifier absent/existing/unknown; Get: "
                                   "wrapping key absent/usable/unknown, active or not), followed in the same batch by an "
                                   "operation that commits" % (op, k), timeout=600, part="readonly"))
    for k in stubs.KINDS:
        out.append(Cond("factory-roundtrip-%s" % k, "factory_roundtrip", dict(kind=k),
                        bounds="%s with 16 arbitrary value bytes; split key parts / part identifier / threshold in 1..255, "
                               "prime field size absent / 2 / 104729 / 2^61-1 (a Big Integer: its digits are realised by the encoder), 3 split methods; 2 algorithm / format / data-type members"
                               % k, timeout=600, part="conversion"))
    for attr in ("Object Group", "Application Specific Information"):
        out.append(Cond("keypair-attributes-%s" % attr.replace(" ", ""), "ckp_attributes", dict(attr=attr),
                        bounds="CreateKeyPair with '%s' present or not in the common, public and private templates" % attr,
                        timeout=300, part="register-get"))
    out.append(Cond("identifiers-autoincrement", "identifiers_autoincrement", {},
                    bounds="read-out of the managed_objects table declaration (assumption of the stub store)", timeout=60,
                    part="assumption"))
    from harness import c15
    for attr in ("Object Group", "Application Specific Information", "Name"):
        out.append(Cond("shared-rows-%s" % attr.replace(" ", ""), "shared_rows", dict(attr=attr, version=[1, 4]),
                        bounds="two objects registered/created with (possibly equal) '%s' texts; modifying one never "
                               "changes what the other reports" % attr, timeout=600, part="history"))
    return out


def shared_rows(attr, version):
    from harness import c15
    return c15.shared_rows(attr, version)
