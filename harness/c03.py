"""C03 - access control (DESIGN.md section 2, C03).

1. decision table vs. a reference predicate written from the statement and docs/source/server.rst
2. the choke point (_get_object_with_access_controls / _list_objects_with_access_controls)
3. every handler that addresses an object: denied => masked error, nothing changed, nothing disclosed
"""
from kv import rt
from kv.rt import Cond, reach
from kv import stubs
from kv.stubs import mk_engine, mk_obj, snapshot

from kmip.core import enums
from kmip.core import exceptions as kex

P = enums.Policy
OT = enums.ObjectType
OP = enums.Operation

# selector -> content of one policy section for (object type T, operation O)
# 0 section missing, 1 empty section, 2 object type present without the operation,
# 3 ALLOW_ALL, 4 ALLOW_OWNER, 5 DISALLOW_ALL
SEL = 6


def section(sel, otype, op, other_op):
    if sel == 0:
        return None
    if sel == 1:
        return {}
    if sel == 2:
        return {otype: {other_op: P.ALLOW_ALL}}
    if other_op == "COMPLEMENT":
        # every *other* operation carries the opposite decision, so a handler that consults the wrong
        # operation's entry is told the opposite of what the right entry says
        perm = {3: P.ALLOW_ALL, 4: P.ALLOW_OWNER, 5: P.DISALLOW_ALL}[sel]
        opposite = P.DISALLOW_ALL if sel in (3, 4) else P.ALLOW_ALL
        entry = {o: opposite for o in OP}
        entry[op] = perm
        return {otype: entry}
    return {otype: {op: {3: P.ALLOW_ALL, 4: P.ALLOW_OWNER, 5: P.DISALLOW_ALL}[sel]}}


def ref_section_allows(sec, otype, op, user, owner):
    """Reference: one section's verdict."""
    if not sec:
        return False
    entry = sec.get(otype)
    if not entry:
        return False
    perm = entry.get(op)
    if perm == P.ALLOW_ALL:
        return True
    if perm == P.ALLOW_OWNER:
        return user == owner
    return False


def ref_allowed(bundle, user, groups, owner, otype, op):
    """Reference predicate, from the statement:
    allow-all to anyone, allow-owner only to the creator, anything else (missing policy,
    object type, operation or group entry) to nobody; with group information the most
    permissive applicable group section decides (the preset section when the policy
    defines no groups), without it only the preset section."""
    if not bundle:
        return False
    if groups is None:
        return ref_section_allows(bundle.get("preset"), otype, op, user, owner)
    gsecs = bundle.get("groups")
    if not gsecs:
        return ref_section_allows(bundle.get("preset"), otype, op, user, owner)
    for g in groups:
        if ref_section_allows(gsecs.get(g), otype, op, user, owner):
            return True
    return False


UGROUPS = [None, [], ["g1"], ["g2"], ["g1", "g2"], ["g3"], ["g3", "g1"]]
OTYPES = [OT.SYMMETRIC_KEY, OT.CERTIFICATE, OT.OPAQUE_DATA]
OPS = [OP.GET, OP.DESTROY, OP.LOCATE]


def build_bundle(exists, preset_sel, g1_sel, g2_sel, groups_key, otype, op, other_op):
    if not exists:
        return None
    b = {}
    ps = section(preset_sel, otype, op, other_op)
    if ps is not None:
        b["preset"] = ps
    if groups_key:
        gs = {}
        s1 = section(g1_sel, otype, op, other_op)
        s2 = section(g2_sel, otype, op, other_op)
        if s1 is not None:
            gs["g1"] = s1
        if s2 is not None:
            gs["g2"] = s2
        b["groups"] = gs
    return b


def decision(ugroup_idx, ti, oi):
    """One condition per (requester-group shape, object type, operation); the policy shape
    (existence, three sections x 6 shapes, 'groups' key) and the two identities are symbolic."""
    ug = UGROUPS[ugroup_idx]
    otype, op = list(OT)[ti], list(OP)[oi]
    other_op = OP.QUERY if op != OP.QUERY else OP.POLL

    def h(exists: bool, preset_sel: int, g1_sel: int, g2_sel: int, groups_key: bool,
          user: str, owner: str) -> bool:
        """
        post: _
        """
        if not (0 <= preset_sel < SEL and 0 <= g1_sel < SEL and 0 <= g2_sel < SEL):
            return True
        if len(user) > 2 or len(owner) > 2:
            return True
        if not exists and (preset_sel or g1_sel or g2_sel or groups_key):
            return True                      # a missing policy has no shape: one representative
        bundle = build_bundle(exists, preset_sel, g1_sel, g2_sel, groups_key, otype, op, other_op)
        policies = {"p": bundle} if bundle is not None else {}
        e, s = mk_engine([], policies=policies, identity=(user, ug))
        got = e._is_allowed_by_operation_policy("p", [user, ug], owner, otype, op)
        reach()
        want = ref_allowed(bundle, user, ug, owner, otype, op)
        return bool(got) == want
    return h


def decision_sweep(ugroup_idx):
    """All object types x all operations (symbolic), policy shape restricted to allow-all /
    allow-owner in preset and g1."""
    ug = UGROUPS[ugroup_idx]
    otypes, ops = list(OT), list(OP)

    def h(ti: int, oi: int, preset_sel: int, g1_sel: int, groups_key: bool, user: str, owner: str) -> bool:
        """
        post: _
        """
        if not (0 <= ti < len(otypes) and 0 <= oi < len(ops)):
            return True
        if not (3 <= preset_sel <= 4 and 3 <= g1_sel <= 4):
            return True
        if len(user) > 1 or len(owner) > 1:
            return True
        otype, op = otypes[ti], ops[oi]
        other_op = OP.QUERY if op != OP.QUERY else OP.POLL
        bundle = build_bundle(True, preset_sel, g1_sel, 0, groups_key, otype, op, other_op)
        e, s = mk_engine([], policies={"p": bundle}, identity=(user, ug))
        got = e._is_allowed_by_operation_policy("p", [user, ug], owner, otype, op)
        reach()
        return bool(got) == ref_allowed(bundle, user, ug, owner, otype, op)
    return h


def builtin(policy_name, ugroup_idx):
    """The built-in policies as shipped (default/public), all object types/operations in them."""
    ug = UGROUPS[ugroup_idx]
    pol = stubs.default_policies()
    bundle = pol[policy_name]
    otypes = list(OT)
    ops = list(OP)

    def h(ti: int, oi: int, user: str, owner: str) -> bool:
        """
        post: _
        """
        if not (0 <= ti < len(otypes) and 0 <= oi < len(ops)):
            return True
        if len(user) > 2 or len(owner) > 2:
            return True
        e, s = mk_engine([], policies=pol, identity=(user, ug))
        got = e._is_allowed_by_operation_policy(policy_name, [user, ug], owner, otypes[ti], ops[oi])
        reach()
        return bool(got) == ref_allowed(bundle, user, ug, owner, otypes[ti], ops[oi])
    return h


# ---- 2. choke point ---------------------------------------------------------------------

def choke(kind, ugroup_idx):
    """_get_object_with_access_controls raises the masked error exactly when the decision
    function (checked against the reference above) denies.  The relevant section (preset when
    the requester has no group information, else g1) takes all 6 shapes."""
    ug = UGROUPS[ugroup_idx]
    ops = [OP.GET, OP.DESTROY, OP.ACTIVATE, OP.GET_ATTRIBUTES]

    def h(sel: int, oi: int, user: str, owner: str, pname_ok: bool, uid_sel: int) -> bool:
        """
        post: _
        """
        if not (0 <= sel < SEL and 0 <= oi < len(ops)):
            return True
        if len(user) > 2 or len(owner) > 2 or not (0 <= uid_sel <= 1):
            return True
        op = ops[oi]
        o = mk_obj(kind, uid=1, owner=owner, policy="p" if pname_ok else "nosuch")
        if ug is None:
            bundle = build_bundle(True, sel, 0, 0, False, o.object_type, op, OP.QUERY)
        else:
            bundle = build_bundle(True, 3, sel, 0, True, o.object_type, op, OP.QUERY)
        e, s = mk_engine([o], policies={"p": bundle}, identity=(user, ug))
        uid = "1" if uid_sel == 0 else "2"
        before = snapshot(o)
        want = ref_allowed(bundle if pname_ok else None, user, ug, owner, o.object_type, op)
        try:
            r = e._get_object_with_access_controls(uid, op)
        except kex.PermissionDenied as ex:
            reach()
            # denial text must be identical to the not-found text
            return (uid == "1" and not want and str(ex) == "Could not locate object: 1"
                    and snapshot(o) == before and s.log == [])
        except kex.ItemNotFound as ex:
            reach()
            return uid == "2" and str(ex) == "Could not locate object: 2" and s.log == []
        reach()
        return uid == "1" and want and r is o
    return h


def listing(ugroup_idx):
    ug = UGROUPS[ugroup_idx]

    def h(sel_a: int, sel_b: int, user: str, owner_a: str, owner_b: str, pol_b_exists: bool) -> bool:
        """
        post: _
        """
        if not (0 <= sel_a < SEL and 0 <= sel_b < SEL):
            return True
        if len(user) > 1 or len(owner_a) > 1 or len(owner_b) > 1:
            return True
        a = mk_obj("SymmetricKey", uid=1, owner=owner_a, policy="pa")
        b = mk_obj("SecretData", uid=2, owner=owner_b, policy="pb")
        c = mk_obj("OpaqueObject", uid=3, owner=user, policy="default")
        ba = build_bundle(True, sel_a, sel_a, 0, False, a.object_type, OP.LOCATE, OP.QUERY)
        bb = build_bundle(True, sel_b, sel_b, 0, True, b.object_type, OP.LOCATE, OP.QUERY)
        pol = stubs.default_policies()
        pol["pa"] = ba
        if pol_b_exists:
            pol["pb"] = bb
        e, s = mk_engine([a, b, c], policies=pol, identity=(user, ug))
        got = e._list_objects_with_access_controls(OP.LOCATE)
        reach()
        want = []
        if ref_allowed(ba, user, ug, owner_a, a.object_type, OP.LOCATE):
            want.append(a)
        if ref_allowed(bb if pol_b_exists else None, user, ug, owner_b, b.object_type, OP.LOCATE):
            want.append(b)
        if ref_allowed(pol["default"], user, ug, user, c.object_type, OP.LOCATE):
            want.append(c)
        return [x.unique_identifier for x in got] == [x.unique_identifier for x in want]
    return h


def listing_same(ugroup_idx):
    """Three objects of one type under one policy, owners symbolic: each is listed on its own merits
    (a decision reused across objects that differ only in owner would show)."""
    ug = UGROUPS[ugroup_idx]

    def h(sel: int, user: str, o1: str, o2: str, o3: str) -> bool:
        """
        post: _
        """
        if not (0 <= sel < SEL) or len(user) > 1 or len(o1) > 1 or len(o2) > 1 or len(o3) > 1:
            return True
        owners = [o1, o2, o3]
        objs = [mk_obj("SymmetricKey", uid=i + 1, owner=owners[i], policy="p") for i in range(3)]
        b = build_bundle(True, sel, sel, 0, False, objs[0].object_type, OP.LOCATE, OP.QUERY)
        pol = stubs.default_policies()
        pol["p"] = b
        e, s = mk_engine(objs, policies=pol, identity=(user, ug))
        got = e._list_objects_with_access_controls(OP.LOCATE)
        reach()
        want = [o.unique_identifier for i, o in enumerate(objs)
                if ref_allowed(b, user, ug, owners[i], o.object_type, OP.LOCATE)]
        return [x.unique_identifier for x in got] == want
    return h


def creator_owner(creator):
    """Whoever creates an object owns it - also when the material it is derived from belongs to
    somebody else; nobody's ownership changes."""
    from kv import payloads as PL

    def h(user: str, base_owner: str) -> bool:
        """
        post: _
        """
        if len(user) > 1 or len(base_owner) > 1:
            return True
        M = enums.CryptographicUsageMask
        base = mk_obj("SymmetricKey", uid=1, owner=base_owner, policy="open", state=enums.State.ACTIVE,
                      masks=[M.DERIVE_KEY])
        pol = stubs.default_policies()
        pol["open"] = {"preset": {base.object_type: {o: P.ALLOW_ALL for o in OP}}}
        e, s = mk_engine([base], policies=pol, identity=(user, None), crypto=PL.RecordingCrypto())
        with stubs.NoTracing():
            payload = PL.mk(creator, "1")
        resp = e._process_operation(getattr(OP, creator), payload)
        reach()
        if base._owner != base_owner:
            return False
        new = [o for o in s.objs if o is not base]
        if len(new) != (2 if creator == "CREATE_KEY_PAIR" else 1):
            return False
        for o in new:
            if o._owner != user:
                return False
        return True
    return h


def _idx(enum_cls, member):
    return list(enum_cls).index(member)


def conditions(tier):
    thorough = tier == "thorough"
    out = []
    for gi in ((0, 2) if not thorough else range(len(UGROUPS))):
        out.append(Cond("listing-same-type-ugroups%d" % gi, "listing_same", dict(ugroup_idx=gi),
                        bounds="three symmetric keys under one policy (6 section shapes), requester and the three owners "
                               "symbolic strings len<=1, requester groups %r" % (UGROUPS[gi],), timeout=600, part="listing"))
    for c in ("CREATE", "REGISTER", "CREATE_KEY_PAIR", "DERIVE_KEY"):
        out.append(Cond("creator-owner-%s" % c, "creator_owner", dict(creator=c),
                        bounds="%s by a requester (symbolic string len<=1) while the store holds a key owned by someone "
                               "else (symbolic) that everybody may read and derive from" % c, timeout=300, part="ownership"))
    pairs = [(OT.SYMMETRIC_KEY, OP.GET)]
    if thorough:
        pairs += [(OT.CERTIFICATE, OP.DESTROY), (OT.OPAQUE_DATA, OP.LOCATE), (OT.SECRET_DATA, OP.QUERY)]
    for gi in range(len(UGROUPS)):
        for (ot, op) in pairs:
            out.append(Cond("decision-ugroups%d-%s-%s" % (gi, ot.name, op.name), "decision",
                            dict(ugroup_idx=gi, ti=_idx(OT, ot), oi=_idx(OP, op)),
                            bounds="requester groups %r; %s/%s; policy exists?, preset/g1/g2 section each of 6 shapes "
                                   "(missing, empty, type without the operation, ALLOW_ALL, ALLOW_OWNER, DISALLOW_ALL), "
                                   "'groups' key present?, user/owner symbolic strings len<=2"
                                   % (UGROUPS[gi], ot.name, op.name),
                            timeout=600, part="decision"))
    for gi in (() if not thorough else (0, 2, 4)):
        out.append(Cond("decision-sweep-ugroups%d" % gi, "decision_sweep", dict(ugroup_idx=gi),
                        bounds="requester groups %r; all object types x all operations symbolic; preset and g1 in "
                               "{ALLOW_ALL, ALLOW_OWNER}; user/owner len<=1" % (UGROUPS[gi],),
                        timeout=1200, part="decision"))
    for pn in ("default", "public"):
        for gi in ((0, 2, 4) if thorough else (2,)):
            out.append(Cond("builtin-%s-ugroups%d" % (pn, gi), "builtin", dict(policy_name=pn, ugroup_idx=gi),
                            bounds="built-in policy '%s' as shipped, requester groups %r, all object types x all "
                                   "operations, user/owner symbolic strings len<=2" % (pn, UGROUPS[gi]),
                            timeout=1200, part="decision"))
    kinds = stubs.KINDS if thorough else ["SymmetricKey", "OpaqueObject"]
    for k in kinds:
        for gi in (0, 2):
            out.append(Cond("choke-%s-ugroups%d" % (k, gi), "choke", dict(kind=k, ugroup_idx=gi),
                            bounds="one stored %s; relevant policy section of 6 shapes, 4 operations, user/owner "
                                   "(len<=2), policy name known/unknown, identifier existing/not - all symbolic" % k,
                            timeout=600, part="chokepoint"))
    for gi in (0, 2):
        out.append(Cond("listing-ugroups%d" % gi, "listing", dict(ugroup_idx=gi),
                        bounds="store of 3 objects, 2 symbolic policies, owners/user symbolic strings len<=1",
                        timeout=600, part="chokepoint"))
    return out
