"""C15 - attribute operations change only what they may, exactly as asked.

Same harness family as C08 part 3 with the success-side oracle added: a reference model of
the *effect* of Set/Modify/DeleteAttribute (written from the statement) is applied to a
snapshot of the object and compared with the real result field by field.
"""
import copy

from kv import rt
from kv.rt import Cond, reach
from kv import stubs, payloads as P
from kv.stubs import mk_engine, mk_obj, snapshot, NoTracing
from harness.c08 import mk_rich

from kmip.core import enums, attributes, objects as cobjects, primitives
from kmip.core.messages import contents
from kmip.services.server import policy as spolicy

OP = enums.Operation
ST = enums.State
T = enums.Tags

PROTECTED = ["unique_identifier", "_object_type", "state", "_owner", "operation_policy_name", "masks",
             "cryptographic_algorithm", "cryptographic_length", "initial_date"]
LISTS = {"Name": "names", "Object Group": "object_groups", "Application Specific Information": "app_specific_info"}


def table_names():
    with NoTracing():
        p = spolicy.AttributePolicy(contents.ProtocolVersion(2, 0))
        return list(p._attribute_rule_sets.keys())


def attr_value(name, text, flag):
    """A value object of the right class for the attributes the server implements; a text
    string carrying the right tag for every other table name."""
    if name == "Name":
        return attributes.Name.create(text, enums.NameType.UNINTERPRETED_TEXT_STRING)
    if name == "Object Group":
        return primitives.TextString(text, T.OBJECT_GROUP)
    if name == "Application Specific Information":
        return attributes.ApplicationSpecificInformation(application_namespace="ns", application_data=text)
    if name == "Sensitive":
        return primitives.Boolean(flag, T.SENSITIVE)
    if name == "State":
        return primitives.Enumeration(enums.State, ST.ACTIVE, T.STATE)
    if name == "Object Type":
        return primitives.Enumeration(enums.ObjectType, enums.ObjectType.SECRET_DATA, T.OBJECT_TYPE)
    if name == "Cryptographic Algorithm":
        return primitives.Enumeration(enums.CryptographicAlgorithm, enums.CryptographicAlgorithm.RSA,
                                      T.CRYPTOGRAPHIC_ALGORITHM)
    if name == "Cryptographic Length":
        return primitives.Integer(256, T.CRYPTOGRAPHIC_LENGTH)
    if name == "Cryptographic Usage Mask":
        return primitives.Integer(0xFFFF, T.CRYPTOGRAPHIC_USAGE_MASK)
    if name == "Initial Date":
        return primitives.DateTime(5, T.INITIAL_DATE)
    if name == "Operation Policy Name":
        return primitives.TextString(text, T.OPERATION_POLICY_NAME)
    if name == "Unique Identifier":
        return primitives.TextString(text, T.UNIQUE_IDENTIFIER)
    try:
        tag = enums.convert_attribute_name_to_tag(name)
    except ValueError:
        tag = T.ATTRIBUTE_VALUE
    return primitives.TextString(text, tag)


def current_value(name, snap, sel):
    """The 2.0 'current attribute': instance number ``sel`` of the stored list, or a value that
    is not there (sel beyond the list)."""
    if name in LISTS:
        lst = snap[LISTS[name]]
        if 0 <= sel < len(lst):
            v = lst[sel]
            v = v[1] if isinstance(v, tuple) else v
        else:
            v = "zz"
        return attr_value(name, v, False)
    if name == "Sensitive":
        return primitives.Boolean(bool(snap["sensitive"]) if sel == 0 else (not snap["sensitive"]), T.SENSITIVE)
    return attr_value(name, "zz", False)


def expected_after(op, form, name, before, index, cur_sel, text, flag):
    """Reference effect of a *successful* call (from the statement: exactly the addressed
    instance becomes the requested value / is removed, nothing else changes).
    Returns None when no successful outcome is admissible for these parameters."""
    exp = copy.deepcopy(before)
    newv = {"Name": text, "Object Group": text, "Application Specific Information": ("ns", text)}.get(name)
    if name in LISTS:
        key = LISTS[name]
        lst = exp[key]
        if op == "SET_ATTRIBUTE":
            return None                                   # multi-valued attributes cannot be Set
        if form == "1x":
            i = 0 if index is None else index
            if not (0 <= i < len(lst)):
                return None
        elif form == "current":
            i = cur_sel
            if not (0 <= i < len(lst)):
                return None
            i = lst.index(lst[i])                        # first instance with that value
        else:                                             # 2.0 reference form: Delete only, all instances
            if op != "DELETE_ATTRIBUTE":
                return None
            exp[key] = []
            return exp
        if op == "MODIFY_ATTRIBUTE":
            lst[i] = newv
        else:
            del lst[i]
        return exp
    if name == "Sensitive":
        if op == "DELETE_ATTRIBUTE":
            return None
        exp["sensitive"] = flag
        return exp
    return None


def attr_step(op, version, name, kind, expect_success=False):
    version = tuple(version)
    v2 = version >= (2, 0)

    def h(index: int, has_index: bool, nlist: int, text: str, flag: bool, form2: int, cur_sel: int,
          sens: bool, empty_mask: bool) -> bool:
        """
        post: _
        """
        if not (-2 <= index <= 3 and 0 <= nlist <= 3 and len(text) <= 2 and 0 <= form2 <= 2 and 0 <= cur_sel <= 3):
            return True
        if form2 == 2 and op != "DELETE_ATTRIBUTE":
            return True               # both optional fields at once exist for DeleteAttribute only
        if empty_mask and name in LISTS:
            return True              # the falsy-current-value pre-state matters for single-valued attributes
        if v2 and (has_index or index):
            return True
        if not v2 and (form2 or cur_sel):
            return True
        o = mk_rich(kind, nlist, nlist, nlist, state=ST.PRE_ACTIVE)
        o.sensitive = sens
        if empty_mask and hasattr(o, "cryptographic_usage_masks"):
            # a stored object whose usage mask is empty (e.g. registered without one): the overwrite
            # rule of the single-valued setter only refuses when the *current* value is truthy
            with NoTracing():
                o.cryptographic_usage_masks = []
        other = mk_obj("SecretData", uid=2, owner="alice", names=["other"])
        e, s = mk_engine([o, other], identity=("alice", None), version=version)
        before = snapshot(o)
        b_other = snapshot(other)
        idx = index if has_index else None
        val = attr_value(name, text, flag)
        if not v2:
            form = "1x"
            if op == "DELETE_ATTRIBUTE":
                payload = P.mk(op, "1", version=version, attr_name=name, attr_index=idx)
            else:
                a = cobjects.Attribute(
                    attribute_name=cobjects.Attribute.AttributeName(name),
                    attribute_index=cobjects.Attribute.AttributeIndex(idx) if idx is not None else None,
                    attribute_value=val)
                payload = P.mk(op, "1", version=version, attribute=a)
        else:
            form = "current" if form2 in (0, 2) else "reference"
            if op == "DELETE_ATTRIBUTE":
                if form2 == 2:
                    # Current Attribute AND Attribute Reference: the more specific one (the instance) is addressed
                    payload = P.mk(op, "1", version=version, attr_value=current_value(name, before, cur_sel))
                    payload.attribute_reference = cobjects.AttributeReference(
                        vendor_identification="Acme", attribute_name=name)
                elif form == "current":
                    payload = P.mk(op, "1", version=version, attr_value=current_value(name, before, cur_sel))
                else:
                    payload = P.mk(op, "1", version=version, reference=True, attr_name=name)
            elif op == "MODIFY_ATTRIBUTE":
                cur = current_value(name, before, cur_sel) if form == "current" else None
                payload = P.mk(op, "1", version=version, current=cur, new=val)
            else:
                payload = P.mk(op, "1", version=version, new=val)
        ok = True
        try:
            e._process_operation(getattr(OP, op), payload)
        except Exception:
            ok = False
        if ok or not expect_success:
            reach()      # the twin's witness is a *successful* call wherever one is admissible
        after = snapshot(o)
        # (a) protected attributes never change, on any path
        for f in PROTECTED:
            if after.get(f) != before.get(f):
                return False
        # the other object is never touched
        if snapshot(other) != b_other or not any(x is other for x in s.objs) or not any(x is o for x in s.objs):
            return False
        if not ok:
            return after == before                       # (c) an unsuccessful call changes nothing
        # (b) a successful call has exactly the requested effect
        exp = expected_after(op, form, name, before, idx, cur_sel, text, flag)
        if exp is None:
            return after == before and False              # success reported where none is admissible
        if after != exp:
            return False
        # GetAttributes reflects it
        if name in LISTS or name == "Sensitive":
            got = e._get_attribute_from_managed_object(o, name)
            if name == "Name":
                return [n.name_value.value for n in got] == exp["names"]
            if name == "Object Group":
                return list(got) == exp["object_groups"]
            if name == "Application Specific Information":
                return [(g["application_namespace"], g["application_data"]) for g in got] == exp["app_specific_info"]
            return got == exp["sensitive"]
        return True
    return h


def shared_rows(attr, version):
    """Three-step history: two objects are created carrying (possibly equal) values of a multi-valued
    attribute, then the first is modified.  The second must not change (no row is shared between
    objects), whatever the texts are."""
    version = tuple(version)
    v2 = version >= (2, 0)

    def h(t1: str, t2: str, t3: str, use_register: bool) -> bool:
        """
        post: _
        """
        if len(t1) > 1 or len(t2) > 1 or len(t3) > 1:
            return True
        A = enums.AttributeType
        e, s = mk_engine([], identity=("alice", None), version=version, crypto=P.RecordingCrypto())

        def extra(text):
            if attr == "Object Group":
                return [P.AF.create_attribute(A.OBJECT_GROUP, text)]
            if attr == "Name":
                return [P.name_attr(text, 0)]
            return [P.AF.create_attribute(A.APPLICATION_SPECIFIC_INFORMATION,
                                          {"application_namespace": "ns", "application_data": text})]
        for text in (t1, t2):
            if use_register:
                pl = P.mk("REGISTER", template=P.sym_template(alg=None, length=None,
                                                              mask=[enums.CryptographicUsageMask.ENCRYPT], extra=extra(text)))
                e._process_operation(OP.REGISTER, pl)
            else:
                pl = P.mk("CREATE", template=P.sym_template(mask=[enums.CryptographicUsageMask.ENCRYPT], extra=extra(text)))
                e._process_operation(OP.CREATE, pl)
        if len(s.objs) != 2:
            return False
        o1, o2 = s.objs
        b2 = snapshot(o2)
        val = attr_value(attr, t3, False)
        if v2:
            cur = attr_value(attr, t1, False)
            payload = P.mk("MODIFY_ATTRIBUTE", str(o1.unique_identifier), version=version, current=cur, new=val)
        else:
            a = cobjects.Attribute(attribute_name=cobjects.Attribute.AttributeName(attr),
                                   attribute_index=cobjects.Attribute.AttributeIndex(0), attribute_value=val)
            payload = P.mk("MODIFY_ATTRIBUTE", str(o1.unique_identifier), version=version, attribute=a)
        e._process_operation(OP.MODIFY_ATTRIBUTE, payload)
        reach()
        return snapshot(o2) == b2
    return h


IMPLEMENTED = ["Name", "Object Group", "Application Specific Information", "Sensitive"]


def conditions(tier):
    thorough = tier == "thorough"
    out = []
    names = table_names() + ["x-custom"]
    quick_names = IMPLEMENTED + ["State", "Operation Policy Name", "Cryptographic Usage Mask", "Unique Identifier",
                                 "Object Type", "Cryptographic Algorithm", "Cryptographic Length", "Initial Date",
                                 "Activation Date", "Usage Limits", "x-custom"]
    for op in ("DELETE_ATTRIBUTE", "MODIFY_ATTRIBUTE", "SET_ATTRIBUTE"):
        for v in ((1, 4), (2, 0)):
            if op == "SET_ATTRIBUTE" and v != (2, 0):
                continue
            for name in (names if thorough else quick_names):
                if v == (2, 0) and name in ("x-custom", "Custom Attribute"):
                    continue       # 2.0 forms identify the attribute by tag
                kinds = ["SymmetricKey"]
                if thorough and name in IMPLEMENTED:
                    kinds = ["SymmetricKey", "OpaqueObject", "X509Certificate"]
                for k in kinds:
                    out.append(Cond("attr-%s-%d.%d-%s-%s" % (op, v[0], v[1], name.replace(" ", ""), k), "attr_step",
                                    dict(op=op, version=list(v), name=name, kind=k,
                                         expect_success=(name in LISTS and op != "SET_ATTRIBUTE") or
                                         (name == "Sensitive" and op != "DELETE_ATTRIBUTE")),
                                    bounds="%s (KMIP %d.%d form) of '%s' on a %s holding 0-3 names/groups/app-infos; index "
                                           "in [-2,3] or absent, new text len<=2, flag, current-attribute selector, "
                                           "request form (2.0 Delete: current / reference / both), stored sensitive flag - symbolic" % (op, v[0], v[1], name, k),
                                    timeout=600, part="attribute"))
    for attr in ("Object Group", "Application Specific Information", "Name"):
        for v in ((1, 4), (2, 0)):
            out.append(Cond("shared-rows-%s-%d.%d" % (attr.replace(" ", ""), v[0], v[1]), "shared_rows",
                            dict(attr=attr, version=list(v)),
                            bounds="Create or Register two objects carrying '%s' texts t1, t2 (len<=1, possibly equal), "
                                   "then ModifyAttribute (KMIP %d.%d form) of the first to t3; the second must not change"
                                   % (attr, v[0], v[1]), timeout=600, part="history"))
    return out
