"""C08 - batch results complete; failed items leave no trace (DESIGN.md section 2, C08).

1. batch loop: real process_request/_process_batch, _process_operation replaced by a stub with a
   symbolic outcome per item; batch size, ID presence, error-continuation option symbolic.
2. ID placeholder inside one batch: real handlers, creating operation followed by an ID-less one.
3. failed item leaves no trace: each mutating handler over the stub store with symbolic
   parameters; on every failure path the store is bit-for-bit unchanged and no store event
   (add/delete/commit-with-pending-change) was recorded.
"""
from kv import rt
from kv.rt import Cond, reach
from kv import stubs, payloads as P
from kv.stubs import mk_engine, mk_obj, snapshot, NoTracing

from kmip.core import enums, attributes, objects as cobjects, primitives
from kmip.core import exceptions as kex
from kmip.core.messages import contents, messages

OP = enums.Operation
ST = enums.State
BEC = enums.BatchErrorContinuationOption
OPS3 = [OP.GET, OP.CREATE, OP.DESTROY]


def mk_request(items, version=(1, 2), bec=None, order=None, max_size=None, time_stamp=None):
    """items: list of (Operation, batch id bytes or None, payload)."""
    with NoTracing():
        pv = contents.ProtocolVersion(version[0], version[1])
    header = messages.RequestHeader(
        protocol_version=pv,
        batch_error_cont_option=contents.BatchErrorContinuationOption(bec) if bec is not None else None,
        batch_order_option=contents.BatchOrderOption(order) if order is not None else None,
        maximum_response_size=contents.MaximumResponseSize(max_size) if max_size is not None else None,
        time_stamp=contents.TimeStamp(time_stamp) if time_stamp is not None else None,
        batch_count=contents.BatchCount(len(items)))
    batch = []
    for op, bid, payload in items:
        batch.append(messages.RequestBatchItem(
            operation=contents.Operation(op),
            unique_batch_item_id=contents.UniqueBatchItemID(bid) if bid is not None else None,
            request_payload=payload))
    return messages.RequestMessage(request_header=header, batch_items=batch)


class Boom(Exception):
    pass


def batch_loop(n, fix_beci=None):
    """n items; per item: outcome 0 success / 1 KmipError / 2 other exception, ID present?.
    fix_beci: slice on the continuation option and pin operations/order (quick tier, n=3)."""
    def h(out0: int, out1: int, out2: int, id0: bool, id1: bool, id2: bool, beci: int, order: bool,
          op0: int, op1: int, op2: int) -> bool:
        """
        post: _
        """
        outs = [out0, out1, out2][:n]
        ids = [id0, id1, id2][:n]
        opis = [op0, op1, op2][:n]
        for x in outs:
            if not (0 <= x <= 2):
                return True
        for x in opis:
            if not (0 <= x < len(OPS3)):
                return True
        if not (0 <= beci <= 2):
            return True
        if fix_beci is not None and (beci != fix_beci or order or op0 or op1 or op2):
            return True
        if n < 3 and (out2 or id2 or op2):
            return True
        if n < 2 and (out1 or id1 or op1):
            return True
        bec = [None, BEC.STOP, BEC.CONTINUE][beci]
        e, s = mk_engine([], identity=("alice", None))
        invoked = []

        def fake_process_operation(operation, payload):
            i = len(invoked)
            invoked.append(operation)
            if outs[i] == 1:
                raise kex.ItemNotFound("no such object %d" % i)
            if outs[i] == 2:
                raise Boom("internal %d" % i)
            return ("payload", i)
        e._process_operation = fake_process_operation
        items = []
        for i in range(n):
            items.append((OPS3[opis[i]], bytes([0x30 + i]) if ids[i] else None, ("req", i)))
        req = mk_request(items, bec=bec, order=order)
        try:
            resp, max_size, version = e.process_request(req, ["alice", None])
        except kex.InvalidMessage:
            reach()
            # refusing the whole request is fine only if nothing was executed
            return len(invoked) == 0
        reach()
        results = resp.batch_items
        # one result per executed item, in request order, echoing operation and ID
        if len(results) != len(invoked):
            return False
        stop_at = None
        for i in range(n):
            if outs[i] != 0 and bec is not BEC.CONTINUE:
                stop_at = i
                break
        expected = n if stop_at is None else stop_at + 1
        if len(invoked) != expected:
            return False
        for i, r in enumerate(results):
            if r.operation.value != OPS3[opis[i]]:
                return False
            want_id = bytes([0x30 + i]) if ids[i] else None
            got_id = r.unique_batch_item_id.value if r.unique_batch_item_id is not None else None
            if got_id != want_id:
                return False
            status = r.result_status.value
            if outs[i] == 0:
                if status != enums.ResultStatus.SUCCESS or r.response_payload != ("payload", i):
                    return False
                if r.result_reason is not None or r.result_message is not None:
                    return False
            else:
                if status != enums.ResultStatus.OPERATION_FAILED:
                    return False
                if r.result_reason is None or r.result_message is None:
                    return False
                want_reason = enums.ResultReason.ITEM_NOT_FOUND if outs[i] == 1 else enums.ResultReason.GENERAL_FAILURE
                if r.result_reason.value != want_reason:
                    return False
        if resp.response_header.batch_count.value != len(results):
            return False
        return True
    return h


CREATORS = ["CREATE", "REGISTER", "CREATE_KEY_PAIR", "DERIVE_KEY"]
FOLLOWERS = ["GET", "GET_ATTRIBUTES", "ACTIVATE", "DESTROY", "GET_ATTRIBUTE_LIST"]


def placeholder(creator, oracle="c08"):
    """oracle 'c13': the same batches, asserting only that no item ends in General Failure."""
    def h(fi: int, with_ids: bool, third: bool) -> bool:
        """
        post: _
        """
        if not (0 <= fi < len(FOLLOWERS)):
            return True
        M = enums.CryptographicUsageMask
        base = mk_obj("SymmetricKey", uid=1, owner="alice", state=ST.ACTIVE, masks=[M.DERIVE_KEY])
        e, s = mk_engine([base], identity=("alice", None), crypto=P.RecordingCrypto())
        with NoTracing():
            p1 = P.mk(creator, "1")
        follower = FOLLOWERS[fi]
        p2 = P.mk(follower, None)
        items = [(getattr(OP, creator), b"1", p1), (getattr(OP, follower), b"2", p2)]
        if third:
            items.append((OP.GET_ATTRIBUTES, b"3", P.mk("GET_ATTRIBUTES", None)))
        resp, _, _ = e.process_request(mk_request(items), ["alice", None])
        reach()
        rs = resp.batch_items
        if oracle == "c13":
            for r in rs:
                if r.result_reason is not None and r.result_reason.value == enums.ResultReason.GENERAL_FAILURE:
                    return False
            return True
        if len(rs) != len(items):
            return False
        if rs[0].result_status.value != enums.ResultStatus.SUCCESS:
            return False
        pl = rs[0].response_payload
        created = pl.private_key_unique_identifier if creator == "CREATE_KEY_PAIR" else pl.unique_identifier
        if rs[1].result_status.value != enums.ResultStatus.SUCCESS:
            return False
        got = rs[1].response_payload.unique_identifier
        got = got.value if hasattr(got, "value") else got
        if str(got) != str(created):
            return False
        if third:
            # after Destroy the placeholder still names the destroyed object => not found, not another object
            if follower == "DESTROY":
                return rs[2].result_status.value == enums.ResultStatus.OPERATION_FAILED
            if rs[2].result_status.value != enums.ResultStatus.SUCCESS:
                return False
            return str(rs[2].response_payload.unique_identifier) == str(created)
        return True
    return h


# ---- 3. no trace on failure ----------------------------------------------------------------

MUTATORS = ["ACTIVATE", "REVOKE", "DESTROY", "DELETE_ATTRIBUTE", "MODIFY_ATTRIBUTE", "SET_ATTRIBUTE"]
ATTR_NAMES = ["Name", "Object Group", "Application Specific Information", "Sensitive", "State",
              "Cryptographic Length", "Operation Policy Name", "x-custom"]


def _attr_value(name, text, version):
    """An attribute value object for ``name`` carrying the symbolic ``text`` where it has text."""
    T = enums.Tags
    if name == "Name":
        return attributes.Name.create(text, enums.NameType.UNINTERPRETED_TEXT_STRING)
    if name == "Object Group":
        return primitives.TextString(text, T.OBJECT_GROUP)
    if name == "Application Specific Information":
        return attributes.ApplicationSpecificInformation(application_namespace="ns", application_data=text)
    if name == "Sensitive":
        return primitives.Boolean(len(text) > 0, T.SENSITIVE)
    if name == "State":
        return primitives.Enumeration(enums.State, ST.ACTIVE, T.STATE)
    if name == "Cryptographic Length":
        return primitives.Integer(256, T.CRYPTOGRAPHIC_LENGTH)
    if name == "Operation Policy Name":
        return primitives.TextString(text, T.OPERATION_POLICY_NAME)
    return primitives.TextString(text, T.ATTRIBUTE_VALUE)


def build_attr_payload(op, version, name, index, text, form):
    v2 = version >= (2, 0)
    val = _attr_value(name, text, version)
    if op == "DELETE_ATTRIBUTE":
        if v2:
            if form == 0:
                return P.mk(op, "1", version=version, attr_value=val)
            return P.mk(op, "1", version=version, reference=True, attr_name=name)
        return P.mk(op, "1", version=version, attr_name=name, attr_index=index)
    if op == "MODIFY_ATTRIBUTE":
        if v2:
            cur = _attr_value(name, "n0", version) if form == 0 else None
            return P.mk(op, "1", version=version, current=cur, new=val)
        a = cobjects.Attribute(
            attribute_name=cobjects.Attribute.AttributeName(name),
            attribute_index=cobjects.Attribute.AttributeIndex(index) if index is not None else None,
            attribute_value=val)
        return P.mk(op, "1", version=version, attribute=a)
    if op == "SET_ATTRIBUTE":
        return P.mk(op, "1", version=version, new=val)
    raise ValueError(op)


def mk_rich(kind, nnames, ngroups, ninfo, state=ST.PRE_ACTIVE, owner="alice"):
    from kmip.pie import objects as pobjects
    o = mk_obj(kind, uid=1, owner=owner, names=["n%d" % i for i in range(nnames)], state=state,
               masks=[enums.CryptographicUsageMask.ENCRYPT])
    with NoTracing():
        for i in range(ngroups):
            o.object_groups.append(pobjects.ObjectGroup(object_group="g%d" % i))
        for i in range(ninfo):
            o.app_specific_info.append(pobjects.ApplicationSpecificInformation(
                application_namespace="ns", application_data="d%d" % i))
    return o


def no_trace(op, kind, version, ni, menu=None):
    """A failing mutating operation leaves the store untouched (and a succeeding one is not C08's
    subject).  attribute name is a parameter; index, list sizes, new text, request form symbolic."""
    version = tuple(version)
    name = ATTR_NAMES[ni] if ni is not None else None

    def h(index: int, has_index: bool, nlist: int, text: str, form: int, si: int, ci: int,
          deny: bool) -> bool:
        """
        post: _
        """
        if not (-2 <= index <= 3 and 0 <= nlist <= 2 and 0 <= form <= 1 and 0 <= si < 4 and len(text) <= 2):
            return True
        codes = list(enums.RevocationReasonCode)
        if not (0 <= ci < len(codes)):
            return True
        if name is None and (has_index or index or nlist or text or form):
            return True                                   # unused dimensions pinned
        if name is not None and (si or ci):
            return True
        if menu is not None:
            # the handler formats the value into its error text, which realises a symbolic
            # string one value per path: the value is drawn from a menu instead
            text = menu[len(text)]
        state = [ST.PRE_ACTIVE, ST.ACTIVE, ST.DEACTIVATED, ST.COMPROMISED][si]
        o = mk_rich(kind, nlist, nlist, nlist, state=state, owner="bob" if deny else "alice")
        other = mk_obj("SecretData", uid=2, owner="alice", names=["other"])
        e, s = mk_engine([o, other], identity=("alice", None), version=version, crypto=P.RecordingCrypto())
        if name is None:
            payload = P.mk(op, "1", version=version, code=codes[ci])
        else:
            payload = build_attr_payload(op, version, name, index if has_index else None, text, form)
        before = (snapshot(o), snapshot(other))
        try:
            e._process_operation(getattr(OP, op), payload)
        except Exception:
            reach()
            still = any(x is o for x in s.objs) and any(x is other for x in s.objs)
            return still and (snapshot(o), snapshot(other)) == before and s.log == []
        reach()
        return snapshot(other) == before[1] and any(x is other for x in s.objs)
    return h


def _tmpl(names, alg, length, mask, extra, tag=None):
    A = enums.AttributeType
    attrs = []
    for i, nm in enumerate(names):
        attrs.append(P.name_attr(nm, i))
    if alg is not None:
        attrs.append(P.AF.create_attribute(A.CRYPTOGRAPHIC_ALGORITHM, alg))
    if length is not None:
        attrs.append(P.AF.create_attribute(A.CRYPTOGRAPHIC_LENGTH, length))
    if mask:
        attrs.append(P.AF.create_attribute(A.CRYPTOGRAPHIC_USAGE_MASK, [enums.CryptographicUsageMask.ENCRYPT,
                                                                       enums.CryptographicUsageMask.SIGN]))
    if extra == 1:
        attrs.append(P.AF.create_attribute(A.OPERATION_POLICY_NAME, "default"))
    elif extra == 2:
        attrs.append(P.AF.create_attribute(A.OBJECT_GROUP, "grp"))
    elif extra == 3:
        attrs.append(P.AF.create_attribute(A.CONTACT_INFORMATION, "x@y"))      # not supported by the server
    if tag is None:
        return cobjects.TemplateAttribute(attributes=attrs)
    return cobjects.TemplateAttribute(attributes=attrs, tag=tag)


def no_trace_create(creator, fix_split=None):
    """A creating operation that fails - at whatever point - leaves nothing in the store or session."""
    CA = enums.CryptographicAlgorithm
    LENS = [128, 0, 7, 192, 2048]

    def h(n0: str, n1: str, n2: str, n3: str, k_a: int, k_b: int, has_alg: bool, has_len: bool, len_sel: int,
          has_mask: bool, extra: int, split: int, bec_continue: bool) -> bool:
        """
        post: _
        """
        for t in (n0, n1, n2, n3):
            if len(t) > 1:
                return True
        if not (0 <= k_a <= 2 and 0 <= k_b <= 2 and 0 <= len_sel < len(LENS) and 0 <= extra <= 3 and 0 <= split <= 2):
            return True
        if creator != "CREATE_KEY_PAIR" and (k_b or split or len(n2) or len(n3)):
            return True
        if fix_split is not None and (split != fix_split or len_sel > 1 or extra in (1, 2)):
            return True
        if fix_split == 0 and k_b:
            return True
        if fix_split == 1 and (k_a > 1 or extra):
            return True
        names_a = [n0, n1][:k_a]
        names_b = [n2, n3][:k_b]
        length = None
        if has_len:
            for i in range(len(LENS)):
                if len_sel == i:
                    length = LENS[i]
        M = enums.CryptographicUsageMask
        base = mk_obj("SymmetricKey", uid=1, owner="alice", state=ST.ACTIVE, masks=[M.DERIVE_KEY], names=["base"])
        e, s = mk_engine([base], identity=("alice", None), crypto=P.RecordingCrypto())
        before = [snapshot(o) for o in s.objs]
        if creator == "CREATE":
            payload = P.mk("CREATE", template=_tmpl(names_a, CA.AES if has_alg else None, length, has_mask, extra))
        elif creator == "REGISTER":
            payload = P.mk("REGISTER", template=_tmpl(names_a, None, None, has_mask, extra))
        elif creator == "DERIVE_KEY":
            payload = P.mk("DERIVE_KEY", "1", template=_tmpl(names_a, CA.AES if has_alg else None, length, has_mask, extra))
        else:
            T = enums.Tags
            alg = CA.RSA if has_alg else None
            # split 0: everything in the common template; 1: names split over public/private; 2: private only
            common = _tmpl([] if split else names_a, alg, length, has_mask, extra, tag=T.COMMON_TEMPLATE_ATTRIBUTE)
            pub = _tmpl(names_a if split == 1 else [], None, None, False, 0, tag=T.PUBLIC_KEY_TEMPLATE_ATTRIBUTE)
            priv = _tmpl(names_b if split else [], None, None, False, 0, tag=T.PRIVATE_KEY_TEMPLATE_ATTRIBUTE)
            from kmip.core.messages import payloads
            payload = payloads.CreateKeyPairRequestPayload(common_template_attribute=common,
                                                           private_key_template_attribute=priv,
                                                           public_key_template_attribute=pub)
        items = [(getattr(OP, creator), b"1", payload), (OP.GET_ATTRIBUTE_LIST, b"2", P.mk("GET_ATTRIBUTE_LIST", "1"))]
        req = mk_request(items, bec=BEC.CONTINUE if bec_continue else None)
        resp, _, _ = e.process_request(req, ["alice", None])
        reach()
        r0 = resp.batch_items[0]
        if r0.result_status.value == enums.ResultStatus.SUCCESS:
            return True
        # failed: no trace - nothing added, nothing pending for a later item's commit to persist
        if s.pending:
            return False
        for ev in s.log:
            if ev[0] in ("add", "delete") or (ev[0] == "commit" and ev[1]):
                return False
        return [snapshot(o) for o in s.objs] == before
    return h


def conditions(tier):
    thorough = tier == "thorough"
    out = []
    if not thorough:
        for b in (0, 1, 2):
            out.append(Cond("batchloop-n3-option%d" % b, "batch_loop", dict(n=3, fix_beci=b),
                            bounds="3 batch items; per item outcome success/KmipError/other exception and batch item ID "
                                   "present? symbolic; continuation option %s; operations and order flag pinned"
                                   % ["absent", "STOP", "CONTINUE"][b], timeout=300, part="batch"))
    for n in ((1, 2, 3) if thorough else (1, 2)):
        out.append(Cond("batchloop-n%d" % n, "batch_loop", dict(n=n),
                        bounds="%d batch items; per item outcome success/KmipError/other exception, batch item ID "
                               "present?, operation among 3; option absent/STOP/CONTINUE; batch order flag" % n,
                        timeout=900 if n == 3 else 300, part="batch"))
    for c in CREATORS:
        out.append(Cond("placeholder-%s" % c, "placeholder", dict(creator=c),
                        bounds="batch [%s, <ID-less Get/GetAttributes/Activate/Destroy/GetAttributeList>, optional third "
                               "ID-less GetAttributes]" % c, timeout=300, part="placeholder"))
    versions = [(1, 2), (2, 0)]
    for op in ("ACTIVATE", "REVOKE", "DESTROY"):
        for k in (stubs.KINDS if thorough else ["SymmetricKey", "OpaqueObject"]):
            out.append(Cond("notrace-%s-%s" % (op, k), "no_trace", dict(op=op, kind=k, version=[1, 2], ni=None),
                            bounds="%s on %s in any storable state, any revocation code, owner or not" % (op, k),
                            timeout=300, part="notrace"))
    for sp in (0, 1, 2):
        out.append(Cond("notrace-create-CREATE_KEY_PAIR-split%d" % sp, "no_trace_create",
                        dict(creator="CREATE_KEY_PAIR", fix_split=sp),
                        bounds="CreateKeyPair, names (text len<=1) %s; algorithm / length (128, 0) / usage mask present or "
                               "not, extra attribute none / unsupported; second item follows; Stop or Continue"
                               % ["0-2 in the common template", "0-2 public + 0-2 private", "0-2 private only"][sp],
                        timeout=900, part="notrace"))
    for c in CREATORS:
        if c == "CREATE_KEY_PAIR":
            continue
        out.append(Cond("notrace-create-%s" % c, "no_trace_create", dict(creator=c),
                        bounds="%s with 0-2 names per template (text len<=1, so duplicates occur), algorithm / length "
                               "(128, 0, 7, 192, 2048) / usage mask present or not, extra attribute none / policy name / "
                               "object group / unsupported; CreateKeyPair: attributes in the common template or split "
                               "over public/private; followed by a second item; Stop or Continue" % c,
                        timeout=900, part="notrace"))
    for op in ("DELETE_ATTRIBUTE", "MODIFY_ATTRIBUTE", "SET_ATTRIBUTE"):
        for v in versions:
            if op == "SET_ATTRIBUTE" and v != (2, 0):
                continue
            for ni in range(len(ATTR_NAMES)):
                if v == (2, 0) and ATTR_NAMES[ni] == "x-custom":
                    continue      # the 2.0 forms identify the attribute by tag: no custom names
                for k in (["SymmetricKey", "OpaqueObject"] if thorough else ["SymmetricKey"]):
                    menu = None
                    if op == "DELETE_ATTRIBUTE" and v == (2, 0):
                        menu = {"Object Group": ["g0", "g1", "zz"],
                                "Application Specific Information": ["d0", "d1", "zz"]}.get(ATTR_NAMES[ni])
                    out.append(Cond("notrace-%s-%d.%d-%s-%s" % (op, v[0], v[1], ATTR_NAMES[ni].replace(" ", ""), k),
                                    "no_trace", dict(op=op, kind=k, version=list(v), ni=ni, menu=menu),
                                    bounds="%s (KMIP %d.%d form) of attribute '%s' on a %s with 0-2 names/groups/app-info; "
                                           "index in [-2,3] or absent, new text len<=2, request form, owner or not - symbolic"
                                           % (op, v[0], v[1], ATTR_NAMES[ni], k), timeout=400, part="notrace"))
    return out
