"""C14 - Locate returns exactly the permitted, matching objects, newest first.

Decomposition (DESIGN.md section 2, C14): the filter loop treats every visible object on its own,
so the claim is split into
 (i)  per-object predicate: store of one object, one condition per filter kind (pairs in the
      thorough tier), result in {[], [id]} must equal a reference predicate from the statement;
 (ii) list level: 2-3 objects with symbolic dates and owners, date filters, symbolic offset and
      maximum: ordering, slicing, page partition, access filtering.
"""
from typing import Optional

from kv import rt
from kv.rt import Cond, reach
from kv import stubs, payloads as P
from kv.stubs import mk_engine, mk_obj, snapshot, NoTracing
from harness.c08 import mk_rich

from kmip.core import enums, attributes, objects as cobjects, primitives
from kmip.core import exceptions as kex

OP = enums.Operation
ST = enums.State
M = enums.CryptographicUsageMask
OT = enums.ObjectType
AF = P.AF
ATYPE = enums.AttributeType

KINDS = ["Name", "State", "Object Type", "Cryptographic Algorithm", "Cryptographic Length",
         "Cryptographic Usage Mask", "Operation Policy Name", "Object Group", "Application Specific Information",
         "Certificate Type", "Unique Identifier", "Sensitive", "Initial Date"]
# KMIP 1.1 section 3: "Applies to Object Types: All Objects"
ALL_OBJECTS = {"Unique Identifier", "Name", "Object Type", "Initial Date", "Object Group",
               "Application Specific Information", "Operation Policy Name"}
TEXTS = ["n0", "n1", "g0", "d0", "default", "public", "1", "2", "zz", ""]
STATES = [ST.PRE_ACTIVE, ST.ACTIVE, ST.DEACTIVATED, ST.COMPROMISED]
OTYPES = [OT.SYMMETRIC_KEY, OT.CERTIFICATE, OT.OPAQUE_DATA, OT.SECRET_DATA, OT.PUBLIC_KEY]
ALGS = [enums.CryptographicAlgorithm.AES, enums.CryptographicAlgorithm.RSA, enums.CryptographicAlgorithm.DES]
MASKSETS = [[], [M.ENCRYPT], [M.ENCRYPT, M.DECRYPT], [M.SIGN], [M.ENCRYPT, M.SIGN]]


# object dimensions / filter-value dimensions each filter kind can observe
RELEVANT = {"Name": {"nlist"}, "State": {"si"}, "Object Type": set(), "Cryptographic Algorithm": set(),
            "Cryptographic Length": {"len"}, "Cryptographic Usage Mask": {"mi"}, "Operation Policy Name": set(),
            "Object Group": {"nlist"}, "Application Specific Information": {"nlist"}, "Certificate Type": set(),
            "Unique Identifier": set(), "Sensitive": {"sens"}, "Initial Date": {"date"}}
FREL = {"Name": {"t"}, "State": {"e"}, "Object Type": {"e"}, "Cryptographic Algorithm": {"e"},
        "Cryptographic Length": {"n"}, "Cryptographic Usage Mask": {"e"}, "Operation Policy Name": {"t"},
        "Object Group": {"t"}, "Application Specific Information": {"t"}, "Certificate Type": {"e"},
        "Unique Identifier": {"t"}, "Sensitive": {"f"}, "Initial Date": {"n"}}
LENS = [0, 128, 256, 1, 127, 129, 255, 257, 512, 1024]


def mk_filter(kind, ti, ei, num, flag):
    """A Locate attribute for filter kind with its value chosen by the (symbolic) selectors."""
    text = TEXTS[ti]
    if kind == "Name":
        return P.name_attr(text)
    if kind == "State":
        return AF.create_attribute(ATYPE.STATE, STATES[ei % len(STATES)])
    if kind == "Object Type":
        return AF.create_attribute(ATYPE.OBJECT_TYPE, OTYPES[ei % len(OTYPES)])
    if kind == "Cryptographic Algorithm":
        return AF.create_attribute(ATYPE.CRYPTOGRAPHIC_ALGORITHM, ALGS[ei % len(ALGS)])
    if kind == "Cryptographic Length":
        return AF.create_attribute(ATYPE.CRYPTOGRAPHIC_LENGTH, LENS[num])
    if kind == "Cryptographic Usage Mask":
        return AF.create_attribute(ATYPE.CRYPTOGRAPHIC_USAGE_MASK, MASKSETS[ei % len(MASKSETS)])
    if kind == "Operation Policy Name":
        return AF.create_attribute(ATYPE.OPERATION_POLICY_NAME, text)
    if kind == "Object Group":
        return AF.create_attribute(ATYPE.OBJECT_GROUP, text)
    if kind == "Application Specific Information":
        return AF.create_attribute(ATYPE.APPLICATION_SPECIFIC_INFORMATION,
                                   {"application_namespace": "ns", "application_data": text})
    if kind == "Certificate Type":
        return AF.create_attribute(ATYPE.CERTIFICATE_TYPE,
                                   [enums.CertificateType.X_509, enums.CertificateType.PGP][ei % 2])
    if kind == "Unique Identifier":
        return AF.create_attribute(ATYPE.UNIQUE_IDENTIFIER, text)
    if kind == "Sensitive":
        return AF.create_attribute(ATYPE.SENSITIVE, flag)
    if kind == "Initial Date":
        return AF.create_attribute(ATYPE.INITIAL_DATE, num)
    raise ValueError(kind)


def ref_match_one(kind, snap, has, ti, ei, num, flag):
    """Reference predicate for one non-date filter, from the statement: the object matches iff it
    carries the attribute and the attribute agrees with the filter value."""
    text = TEXTS[ti]
    if kind == "Name":
        return text in snap["names"]
    if kind == "State":
        return has("state") and snap["state"] == STATES[ei % len(STATES)]
    if kind == "Object Type":
        return snap["_object_type"] == OTYPES[ei % len(OTYPES)]
    if kind == "Cryptographic Algorithm":
        return has("cryptographic_algorithm") and snap["cryptographic_algorithm"] == ALGS[ei % len(ALGS)]
    if kind == "Cryptographic Length":
        return has("cryptographic_length") and snap["cryptographic_length"] == LENS[num]
    if kind == "Cryptographic Usage Mask":
        want = [m.value for m in MASKSETS[ei % len(MASKSETS)]]
        return has("masks") and all(w in snap["masks"] for w in want)
    if kind == "Operation Policy Name":
        return snap["operation_policy_name"] == text
    if kind == "Object Group":
        return text in snap["object_groups"]
    if kind == "Application Specific Information":
        return ("ns", text) in snap["app_specific_info"]
    if kind == "Certificate Type":
        return has("certificate_type") and snap["certificate_type"] == [enums.CertificateType.X_509,
                                                                        enums.CertificateType.PGP][ei % 2]
    if kind == "Unique Identifier":
        return str(snap["unique_identifier"]) == text
    if kind == "Sensitive":
        return bool(snap["sensitive"]) == bool(flag)
    raise ValueError(kind)


def ref_dates(dates, value):
    """Initial Date given once = exact match, twice = inclusive range, more = error."""
    if len(dates) == 0:
        return True
    if len(dates) == 1:
        return value == dates[0]
    lo, hi = min(dates), max(dates)
    return lo <= value <= hi


def per_object(kind1, kind2, obj_kind):
    """Store of one object; 1-2 filters of fixed kinds with symbolic values."""
    kinds = [kind1] + ([kind2] if kind2 else [])

    def h(si: int, mi: int, sens: bool, date: int, nlist: int, len_sel: int,
          t1: int, e1: int, n1: int, f1: bool, t2: int, e2: int, n2: int, f2: bool) -> bool:
        """
        post: _
        """
        if not (0 <= si < 4 and 0 <= mi < len(MASKSETS) and 1 <= date <= 9 and 0 <= nlist <= 2 and 0 <= len_sel <= 1):
            return True
        for t, e_, n in ((t1, e1, n1), (t2, e2, n2)):
            if not (0 <= t < len(TEXTS) and 0 <= e_ <= 4 and 0 <= n <= 9):
                return True
        if kind2 is None and (t2 or e2 or n2 or f2):
            return True
        # only the dimensions the filter kinds can observe vary; the others are pinned
        rel = set()
        for k in kinds:
            rel |= RELEVANT[k]
        if ("si" not in rel and si) or ("mi" not in rel and mi) or ("sens" not in rel and sens) or \
                ("date" not in rel and date != 1) or ("nlist" not in rel and nlist != 1) or \
                ("len" not in rel and len_sel):
            return True
        for i, k in enumerate(kinds):
            t, e_, n_, f_ = [(t1, e1, n1, f1), (t2, e2, n2, f2)][i]
            if ("t" not in FREL[k] and t) or ("e" not in FREL[k] and e_) or ("n" not in FREL[k] and n_) or \
                    ("f" not in FREL[k] and f_):
                return True
        state, masks = STATES[si], MASKSETS[mi]
        n = int(nlist)
        with NoTracing():
            o = mk_rich(obj_kind, n, n, n, state=state)
            if hasattr(o, "cryptographic_usage_masks"):
                o.cryptographic_usage_masks = list(masks)
            if len_sel and obj_kind == "SymmetricKey":
                o.cryptographic_length = 256
                o.value = b"\x01" * 32
        o.sensitive = sens
        o.initial_date = date
        e, s = mk_engine([o], identity=("alice", None), version=(1, 4))
        sel = [(t1, e1, n1, f1), (t2, e2, n2, f2)]
        try:
            attrs = [mk_filter(k, *sel[i]) for i, k in enumerate(kinds)]
        except (TypeError, ValueError):
            return True
        snap = snapshot(o)

        def has(f):
            return f in snap and snap[f] is not None
        try:
            resp = e._process_operation(OP.LOCATE, P.mk("LOCATE", attributes=attrs))
        except kex.KmipError:
            reach()
            # the only admissible refusal: more than two Initial Date filters (not constructible here)
            return False
        reach()
        dates = [sel[i][2] for i, k in enumerate(kinds) if k == "Initial Date"]
        want = ref_dates(dates, date)
        for i, k in enumerate(kinds):
            if k != "Initial Date":
                want = want and ref_match_one(k, snap, has, *sel[i])
        # the attribute must also be applicable to the object's type.  For the attributes the KMIP
        # specification defines for *all* object types that is independent knowledge; for the
        # others (where PyKMIP's objects and the specification differ in detail) the server's
        # rule table is taken as the definition of "carries the attribute".
        for k in kinds:
            if k in ALL_OBJECTS:
                continue
            if not e._attribute_policy.is_attribute_applicable_to_object_type(k, o.object_type):
                want = False
        got = list(resp.unique_identifiers)
        return got == (["1"] if want else [])
    return h


def list_level(n, with_dates, kinds=("SymmetricKey", "SecretData", "OpaqueObject")):
    """n stored objects with symbolic dates/owners/policies; optional Initial Date filters;
    symbolic offset and maximum; requester symbolic among owner/other."""
    def h(d0: int, d1: int, d2: int, own0: bool, own1: bool, own2: bool, pub0: bool, pub1: bool, pub2: bool,
          nf: int, fa: int, fb: int, off: Optional[int], mx: Optional[int]) -> bool:
        """
        post: _
        """
        ds, owns, pubs = [d0, d1, d2][:n], [own0, own1, own2][:n], [pub0, pub1, pub2][:n]
        for d in ds:
            if not (1 <= d <= 6):
                return True
        if n < 3 and (d2 or own2 or pub2):
            return True
        if not (0 <= nf <= 2 and 0 <= fa <= 7 and 0 <= fb <= 7):
            return True
        if not with_dates and (nf or fa or fb):
            return True
        if nf < 2 and fb:
            return True
        if nf < 1 and fa:
            return True
        if off is not None and not (0 <= off <= 4):
            return True
        if mx is not None and not (0 <= mx <= 4):
            return True
        objs = []
        for i in range(n):
            o = mk_obj(kinds[i], uid=i + 1,
                       owner="alice" if owns[i] else "bob",
                       policy="public" if pubs[i] else "default", names=["n"], state=ST.ACTIVE, masks=[])
            o.initial_date = ds[i]
            objs.append(o)
        e, s = mk_engine(objs, identity=("alice", None), version=(1, 2))
        attrs = [AF.create_attribute(ATYPE.INITIAL_DATE, v) for v in [fa, fb][:nf]]
        resp = e._process_operation(OP.LOCATE, P.mk("LOCATE", attributes=attrs or None, offset_items=off,
                                                    maximum_items=mx))
        reach()
        got = list(resp.unique_identifiers)
        pol = e._operation_policies
        visible = []
        for i, o in enumerate(objs):
            from harness.c03 import ref_allowed
            if ref_allowed(pol.get("public" if pubs[i] else "default"), "alice", None,
                           "alice" if owns[i] else "bob", o.object_type, OP.LOCATE):
                visible.append(i)
        matching = [i for i in visible if ref_dates([fa, fb][:nf], ds[i])]
        # newest first; ties are not ordered by the statement
        start = off if off is not None else 0
        total = len(matching)
        want_len = max(0, min(total - start, mx if mx is not None else total))
        if len(got) != want_len:
            return False
        gi = []
        for u in got:
            i = int(u) - 1
            if i not in matching or i in gi:
                return False
            gi.append(i)
        gd = [ds[i] for i in gi]
        for a, b in zip(gd, gd[1:]):
            if a < b:
                return False
        # the page is the right window of the ordered list: everything newer than the page's first
        # entry was skipped, and exactly `start` entries precede it (decidable when dates differ)
        md = sorted([ds[i] for i in matching], reverse=True)
        if gd != md[start:start + want_len]:
            return False
        return True
    return h


def conditions(tier):
    thorough = tier == "thorough"
    out = []
    objs = ["SymmetricKey", "X509Certificate", "OpaqueObject"] if not thorough else stubs.KINDS
    for k in KINDS:
        for ok in objs:
            out.append(Cond("object-%s-%s" % (k.replace(" ", ""), ok), "per_object",
                            dict(kind1=k, kind2=None, obj_kind=ok),
                            bounds="one stored %s (state, mask set, sensitive, date 1..9, 0-2 names/groups/app-infos, "
                                   "length 128/256 symbolic); one '%s' filter whose value is symbolic over its menu / "
                                   "0..9" % (ok, k), timeout=600, part="per-object"))
    pairs = [("Initial Date", "Initial Date"), ("Name", "State"), ("Cryptographic Length", "Cryptographic Usage Mask"),
             ("Sensitive", "Object Group"), ("Initial Date", "Name")]
    if thorough:
        pairs = [(a, b) for i, a in enumerate(KINDS) for b in KINDS[i:]]
    for a, b in pairs:
        for ok in (["SymmetricKey"] if not thorough else ["SymmetricKey", "X509Certificate"]):
            out.append(Cond("object-%s+%s-%s" % (a.replace(" ", ""), b.replace(" ", ""), ok), "per_object",
                            dict(kind1=a, kind2=b, obj_kind=ok),
                            bounds="one stored %s; conjunction of a '%s' and a '%s' filter, values symbolic" % (ok, a, b),
                            timeout=900, part="per-object"))
    out.append(Cond("list-2-paging", "list_level", dict(n=2, with_dates=False),
                    bounds="2 objects, dates 1..6, owner/other, default/public policy, offset and maximum absent or 0..4",
                    timeout=600, part="list"))
    out.append(Cond("list-2-dates", "list_level", dict(n=2, with_dates=True),
                    bounds="2 objects as above plus 0-2 Initial Date filters with values 0..7", timeout=900, part="list"))
    for tag, ks in (("pub-sym", ["PublicKey", "SymmetricKey"]), ("sym-pub", ["SymmetricKey", "PublicKey"]),
                    ("cert-sym-pub", ["X509Certificate", "SymmetricKey", "PublicKey"]),
                    ("sym-cert-priv", ["SymmetricKey", "X509Certificate", "PrivateKey"])):
        out.append(Cond("list-%d-mixed-%s" % (len(ks), tag), "list_level", dict(n=len(ks), with_dates=False, kinds=ks),
                        bounds="%d objects of kinds %s (publicly locatable and owner-only types under the default "
                               "policy), dates 1..6, owner/other, default/public policy, offset and maximum absent or 0..4"
                               % (len(ks), ks), timeout=900, part="list"))
    out.append(Cond("list-3-paging", "list_level", dict(n=3, with_dates=False),
                    bounds="3 objects, dates 1..6, owner/other, default/public policy, offset and maximum absent or 0..4",
                    timeout=1800 if thorough else 900, part="list"))
    if thorough:
        out.append(Cond("list-3-dates", "list_level", dict(n=3, with_dates=True),
                        bounds="3 objects plus 0-2 Initial Date filters", timeout=3000, part="list"))
    return out
