"""C03 part 3 - every call site: a handler that addresses an object, run under a symbolic
policy; when the reference predicate denies, the handler must fail with the masked error,
change nothing, record no store event, never reach the crypto backend."""
import ast
import inspect

from kv import rt
from kv.rt import Cond, reach
from kv import stubs, payloads as P
from kv.stubs import mk_engine, mk_obj, snapshot
from harness.c03 import build_bundle, ref_allowed, SEL

from kmip.core import enums
from kmip.core import exceptions as kex
from kmip.services.server import engine as engine_mod

OP = enums.Operation
ALL_MASKS = list(enums.CryptographicUsageMask)

NON_OBJECT_OPS = {"CREATE", "CREATE_KEY_PAIR", "REGISTER", "LOCATE", "QUERY", "DISCOVER_VERSIONS"}


def handlers_in_source():
    """Operation names dispatched by _process_operation in the current tree."""
    src = inspect.getsource(engine_mod.KmipEngine._process_operation)
    tree = ast.parse("class X:\n" + src) if src.startswith("    ") else ast.parse(src)
    names = set()
    for node in ast.walk(tree):
        if isinstance(node, ast.Attribute) and isinstance(node.value, ast.Attribute) \
                and node.value.attr == "Operation":
            names.add(node.attr)
    return names


def site(op, route, kind):
    policy_op = P.OBJECT_OPS[op]
    version = P.MIN_VERSION.get(op, (1, 2))
    handler_op = getattr(OP, op)

    def h(sel: int, user: str, owner: str, placeholder: bool) -> bool:
        """
        post: _
        """
        if not (0 <= sel < SEL) or len(user) > 1 or len(owner) > 1:
            return True
        o = mk_obj(kind, uid=1, owner=owner, policy="p", names=["name1"], masks=ALL_MASKS,
                   state=enums.State.ACTIVE)
        other = OP.QUERY
        # selectors 3-5 give every other operation the opposite permission (wrong-operation look-ups show)
        bundle = build_bundle(True, sel, 0, 0, False, o.object_type, policy_op, "COMPLEMENT" if sel >= 3 else other)
        pol = stubs.default_policies()
        pol["p"] = bundle
        crypto = P.RecordingCrypto()
        objs = [o]
        target = o
        if route in ("wrapkey", "derive2"):
            # object 1 is readable by everyone; the *second* object is under the symbolic policy
            first = mk_obj("SymmetricKey", uid=2, owner="z", policy="open", masks=ALL_MASKS,
                           state=enums.State.ACTIVE)
            pol["open"] = build_bundle(True, 3, 0, 0, False, first.object_type, OP.GET, other)
            objs = [first, o]
        e, s = mk_engine(objs, policies=pol, identity=(user, None), version=version, crypto=crypto)
        uid = "1"
        if route == "wrapkey":
            payload = P.mk("GET", "2", version=version, wrap_uid="1")
        elif route == "derive2":
            payload = P.mk("DERIVE_KEY", None, version=version, uids=["2", "1"])
        elif placeholder and op != "DERIVE_KEY":      # DeriveKey takes an identifier list, no placeholder
            e._id_placeholder = "1"
            payload = P.mk(op, None, version=version)
        else:
            payload = P.mk(op, uid, version=version)
        before = [snapshot(x) for x in objs]
        want = ref_allowed(bundle, user, None, owner, target.object_type, policy_op)
        try:
            e._process_operation(handler_op, payload)
        except kex.KmipError as ex:
            reach()
            if want:
                return True                      # allowed; failing for another reason is not C03's subject
            unchanged = [snapshot(x) for x in objs] == before and s.log == [] and crypto.calls == []
            if route == "wrapkey":
                return unchanged and isinstance(ex, kex.ItemNotFound) and str(ex) == "Wrapping key does not exist."
            return (unchanged and isinstance(ex, kex.PermissionDenied)
                    and str(ex) == "Could not locate object: 1")
        except Exception:
            # granted and failing past the access check (e.g. deepcopy of a never-flushed pie
            # object in the wrapping branch, a stub-store artefact) is not C03's subject;
            # a denied request must fail with the masked KMIP error, nothing else
            return bool(want)
        reach()
        return want                               # success is only acceptable when granted
    return h


KIND_FOR = {"SIGN": "PrivateKey", "SIGNATURE_VERIFY": "PublicKey"}


def conditions(tier):
    thorough = tier == "thorough"
    found = handlers_in_source()
    covered = set(P.OBJECT_OPS) | NON_OBJECT_OPS
    if found != covered:
        raise RuntimeError("handler table out of date: _process_operation dispatches %s, harness knows %s"
                           % (sorted(found - covered), sorted(covered - found)))
    out = []
    for op in sorted(P.OBJECT_OPS):
        kinds = [KIND_FOR.get(op, "SymmetricKey")]
        if thorough:
            kinds = sorted(set(kinds + ["OpaqueObject", "SecretData", "X509Certificate"]))
        for k in kinds:
            out.append(Cond("site-%s-%s" % (op, k), "site", dict(op=op, route="uid", kind=k),
                            bounds="%s on a stored %s addressed by identifier or by ID placeholder (symbolic); "
                                   "governing policy section of 6 shapes; user/owner symbolic strings len<=1" % (op, k),
                            timeout=300, part="callsite"))
    out.append(Cond("site-GET-wrappingkey", "site", dict(op="GET", route="wrapkey", kind="SymmetricKey"),
                    bounds="Get of a readable key with a wrapping key under a symbolic policy", timeout=300,
                    part="callsite"))
    out.append(Cond("site-DERIVE_KEY-second-base-object", "site",
                    dict(op="DERIVE_KEY", route="derive2", kind="SymmetricKey"),
                    bounds="DeriveKey with two base objects, the second under a symbolic policy", timeout=300,
                    part="callsite"))
    return out
