"""C02 - emitted bytes are spec TTLV; responses follow the envelope (DESIGN.md section 2, C02).

Part A  differential against kv/ttlv_ref.py: for each primitive class the bytes the real write()
        emits are compared with an independent reading of KMIP 1.1 section 9.1.  The comparison
        is made in the *decode* orientation (header bytes equal, declared length as mandated,
        value bytes interpreted big-endian/two's-complement give back the value, padding zero,
        total a multiple of 8): on a fixed width that interpretation is a bijection, so it is
        equivalent to byte identity with the reference encoder, and it keeps the solver query
        linear.  A defect symmetric in reader and writer (invisible to C01) is caught here.
Part C  envelope: the real process_request/_process_batch/_build_response/build_error_response
        with a stubbed _process_operation whose outcome per item is symbolic; the response is
        encoded by the real writers and walked by the reference walker.
(Part B, the walker over structure encodings, is asserted inside the C01 structure harnesses.)
"""
from kv import rt
from kv.rt import Cond, reach
from kv import ttlv_ref as R

from kmip.core import attributes, enums, primitives, utils
from kmip.core import exceptions as kex

TAGS = [enums.Tags.DEFAULT, enums.Tags.CRYPTOGRAPHIC_LENGTH, enums.Tags.UNIQUE_IDENTIFIER,
        enums.Tags.ACTIVATION_DATE, enums.Tags.BATCH_COUNT, enums.Tags.SENSITIVE]


def _enc(x):
    s = utils.BytearrayStream()
    x.write(s)
    return s.buffer


def _be_value(bs):
    """Big-endian interpretation (linear in the bytes)."""
    v = 0
    for b in bs:
        v = v * 256 + b
    return v


def _twos_value(bs):
    v = _be_value(bs)
    if bs[0] >= 128:
        v = v - (1 << (8 * len(bs)))
    return v


def _header_ok(buf, tag, typ, length):
    return list(buf[:8]) == R.header(tag.value, typ, length)


def diff_int(cls):
    """Integer / LongInteger / DateTime / Interval / unsigned Integer."""
    spec = {
        "Integer": (lambda v, t: primitives.Integer(v, tag=t), R.T_INT, 4, True),
        "LongInteger": (lambda v, t: primitives.LongInteger(v, tag=t), R.T_LONG, 8, True),
        "DateTime": (lambda v, t: primitives.DateTime(v, tag=t), R.T_DATE, 8, True),
        "Interval": (lambda v, t: primitives.Interval(v, tag=t), R.T_INTERVAL, 4, False),
    }[cls]
    mk, typ, width, signed = spec

    def h(v: int, ti: int) -> bool:
        """
        post: _
        """
        if not (0 <= ti < len(TAGS)):
            return True
        tag = TAGS[ti]
        try:
            x = mk(v, tag)
        except (TypeError, ValueError):
            return True
        b = _enc(x)
        reach()
        total = 8 + width + (8 - width) % 8
        if len(b) != total or not _header_ok(b, tag, typ, width):
            return False
        val = list(b[8:8 + width])
        got = _twos_value(val) if signed else _be_value(val)
        if got != v:
            return False
        for p in b[8 + width:]:
            if p != 0:
                return False
        return True
    return h


def diff_bool():
    def h(v: bool, ti: int) -> bool:
        """
        post: _
        """
        if not (0 <= ti < len(TAGS)):
            return True
        tag = TAGS[ti]
        b = _enc(primitives.Boolean(v, tag=tag))
        reach()
        return bytes(b) == R.enc_bool(tag.value, v)
    return h


def diff_enum(enum_name):
    e = getattr(enums, enum_name)
    members = list(e)

    def h(i: int, ti: int) -> bool:
        """
        post: _
        """
        if not (0 <= ti < len(TAGS)) or not (0 <= i < len(members)):
            return True
        tag = TAGS[ti]
        b = _enc(primitives.Enumeration(e, members[i], tag=tag))
        reach()
        if len(b) != 16 or not _header_ok(b, tag, R.T_ENUM, 4):
            return False
        if _be_value(list(b[8:12])) != members[i].value:
            return False
        return list(b[12:]) == [0, 0, 0, 0]
    return h


def diff_bytes(maxlen):
    def h(v: bytes, ti: int) -> bool:
        """
        post: _
        """
        if not (0 <= ti < len(TAGS)) or len(v) > maxlen:
            return True
        tag = TAGS[ti]
        b = _enc(primitives.ByteString(v, tag=tag))
        reach()
        for n in range(maxlen + 1):          # make the length concrete for the reference
            if len(v) == n:
                pad = R.pad_to_8(n)
                if len(b) != 8 + n + pad or not _header_ok(b, tag, R.T_BYTES, n):
                    return False
                if bytes(b[8:8 + n]) != v:
                    return False
                return list(b[8 + n:]) == [0] * pad
        return False
    return h


def diff_text(maxlen):
    def h(v: str, ti: int) -> bool:
        """
        post: _
        """
        if not (0 <= ti < len(TAGS)) or len(v) > maxlen:
            return True
        ascii_only = True
        for ch in v:
            if ord(ch) > 127:
                ascii_only = False
        tag = TAGS[ti]
        if not ascii_only:
            # On this tree non-ASCII text cannot be encoded at all (struct.error: the C01 known finding),
            # so nothing is emitted and C02 has nothing to say; but IF bytes are emitted they must be the
            # UTF-8 encoding with a byte-counted length.
            if len(v) > 2 or ti != 0:
                return True
            import struct as _struct
            try:
                b = _enc(primitives.TextString(v, tag=tag))
            except (_struct.error, TypeError, ValueError):
                return True
            return bytes(b) == R.enc_text(tag.value, v)
        b = _enc(primitives.TextString(v, tag=tag))
        reach()
        for n in range(maxlen + 1):
            if len(v) == n:
                pad = R.pad_to_8(n)
                if len(b) != 8 + n + pad or not _header_ok(b, tag, R.T_TEXT, n):
                    return False
                for k in range(n):
                    if b[8 + k] != ord(v[k]):      # UTF-8 of an ASCII character is its code point
                        return False
                return list(b[8 + n:]) == [0] * pad
        return False
    return h


def diff_big(bits):
    lim = 1 << bits

    def h(v: int) -> bool:
        """
        post: _
        """
        if v <= -lim or v >= lim:
            return True
        b = _enc(primitives.BigInteger(v))
        reach()
        return _big_ok(b, v)
    return h


def _big_ok(b, v):
    """Big Integer per the specification: length a multiple of 8, two's complement, sign-extended.
    The specification does not require the *shortest* such encoding (PyKMIP spends an extra sign
    word when the magnitude fills whole 64-bit words), so any sign-extended width is accepted; the
    minimal reference encoding must be a suffix and the extra leading bytes pure sign extension."""
    n = len(b) - 8
    if n < 8 or n % 8 != 0 or not _header_ok(b, enums.Tags.DEFAULT, R.T_BIG, n):
        return False
    ref = R.enc_big(enums.Tags.DEFAULT.value, int(v))[8:]
    body = bytes(b[8:])
    if len(body) < len(ref) or body[len(body) - len(ref):] != ref:
        return False
    ext = 0xFF if v < 0 else 0x00
    return all(x == ext for x in body[:len(body) - len(ref)])


BIG_PINS = [0, 1, -1, 127, 128, -128, -129, 255, -256, 2 ** 63 - 1, 2 ** 63, -2 ** 63, -2 ** 63 - 1,
            2 ** 64 - 1, 2 ** 64, -2 ** 64, 2 ** 127 - 1, -2 ** 127, 2 ** 127]


def diff_big_pinned():
    def h(i: int) -> bool:
        """
        post: _
        """
        if not (0 <= i < len(BIG_PINS)):
            return True
        b = _enc(primitives.BigInteger(BIG_PINS[i]))
        reach()
        return _big_ok(b, BIG_PINS[i])
    return h


# ---- Part C: envelope ----------------------------------------------------------------------

def envelope(n, version, beci):
    from kv import stubs
    from kv.stubs import mk_engine, NoTracing
    from harness.c08 import mk_request, Boom
    from kmip.core.messages import payloads, contents
    BEC = enums.BatchErrorContinuationOption
    OP = enums.Operation
    version = tuple(version)
    bec = [None, BEC.STOP, BEC.CONTINUE][beci]
    ERR = [kex.ItemNotFound, kex.PermissionDenied, kex.InvalidField, kex.OperationNotSupported,
           kex.IllegalOperation, kex.CryptographicFailure, kex.KeyCompressionTypeNotSupported]
    REASONS = {kex.ItemNotFound: enums.ResultReason.ITEM_NOT_FOUND,
               kex.PermissionDenied: enums.ResultReason.PERMISSION_DENIED,
               kex.InvalidField: enums.ResultReason.INVALID_FIELD,
               kex.OperationNotSupported: enums.ResultReason.OPERATION_NOT_SUPPORTED,
               kex.IllegalOperation: enums.ResultReason.ILLEGAL_OPERATION,
               kex.CryptographicFailure: enums.ResultReason.CRYPTOGRAPHIC_FAILURE,
               kex.KeyCompressionTypeNotSupported: enums.ResultReason.KEY_COMPRESSION_TYPE_NOT_SUPPORTED}

    def h(out0: int, out1: int, out2: int, id0: bool, id1: bool, id2: bool, stamp: int) -> bool:
        """
        post: _
        """
        outs = [out0, out1, out2][:n]
        ids = [id0, id1, id2][:n]
        for x in outs:
            if not (0 <= x <= len(ERR) + 1):
                return True            # 0 success, 1..len(ERR) KmipError classes, len(ERR)+1 other exception
        if n < 3 and (out2 or id2):
            return True
        if n < 2 and (out1 or id1):
            return True
        if not (0 <= stamp < 2 ** 40):
            return True
        if n > 1 and not all(ids):
            return True                # a multi-item batch without item IDs is refused as a whole (C08)
        e, s = mk_engine([], identity=("alice", None), now=stamp)
        invoked = []

        def fake_process_operation(operation, payload):
            i = len(invoked)
            invoked.append(operation)
            if outs[i] == 0:
                return payloads.DestroyResponsePayload(unique_identifier=attributes.UniqueIdentifier("7"))
            # explicit comparison chain: indexing a list of classes with a symbolic int yields a
            # symbolic *type*, which CrossHair cannot exhaust
            for k, cls in enumerate(ERR):
                if outs[i] == k + 1:
                    raise cls("failure %d" % i)
            raise Boom("internal %d" % i)
        e._process_operation = fake_process_operation
        items = [(OP.DESTROY, bytes([0x30 + i]) if ids[i] else None, ("req", i)) for i in range(n)]
        req = mk_request(items, version=version, bec=bec)
        resp, max_size, pv = e.process_request(req, ["alice", None])
        hdr = resp.response_header
        if hdr.protocol_version.major != version[0] or hdr.protocol_version.minor != version[1]:
            return False
        if hdr.time_stamp is None or hdr.time_stamp.value != stamp:
            return False
        if hdr.batch_count.value != len(resp.batch_items) or len(resp.batch_items) != len(invoked):
            return False
        for i, r in enumerate(resp.batch_items):
            if r.result_status is None:
                return False
            ok = r.result_status.value == enums.ResultStatus.SUCCESS
            if ok != (outs[i] == 0):
                return False
            if ok and (r.result_reason is not None or r.result_message is not None):
                return False
            if not ok:
                if r.result_reason is None or r.result_message is None:
                    return False
                want = enums.ResultReason.GENERAL_FAILURE
                for k, cls in enumerate(ERR):
                    if outs[i] == k + 1:
                        want = REASONS[cls]
                if r.result_reason.value != want:
                    return False
        st = utils.BytearrayStream()
        resp.write(st, kmip_version=stubs.KMIP_VERSION[version])
        reach()
        return _envelope_ok(bytes(st.buffer), version, len(invoked))
    return h


def _envelope_ok(buf, version, n_items, stamp=None):
    """Reference check of an encoded response message (independent of PyKMIP's readers)."""
    try:
        tag, typ, length, ch = R.well_formed_message(buf)
    except R.Malformed:
        return False
    T = enums.Tags
    if tag != T.RESPONSE_MESSAGE.value or typ != R.T_STRUCT or not ch:
        return False
    if ch[0][0] != T.RESPONSE_HEADER.value:
        return False
    htags = [c[0] for c in ch[0][3]]
    if htags[0] != T.PROTOCOL_VERSION.value or T.TIME_STAMP.value not in htags or htags[-1] != T.BATCH_COUNT.value:
        return False
    items = ch[1:]
    if len(items) != n_items:
        return False
    for it in items:
        if it[0] != T.BATCH_ITEM.value or it[1] != R.T_STRUCT:
            return False
        itags = [c[0] for c in it[3]]
        if T.RESULT_STATUS.value not in itags:
            return False
    # header values: version and batch count, read straight from the bytes
    vals = R.leaf_values(buf)
    if vals.get(T.PROTOCOL_VERSION_MAJOR.value, [None])[0] != version[0]:
        return False
    if vals.get(T.PROTOCOL_VERSION_MINOR.value, [None])[0] != version[1]:
        return False
    if vals.get(T.BATCH_COUNT.value, [None])[0] != n_items:
        return False
    statuses = vals.get(T.RESULT_STATUS.value, [])
    reasons = vals.get(T.RESULT_REASON.value, [])
    n_fail = sum(1 for s_ in statuses if s_ != enums.ResultStatus.SUCCESS.value)
    if len(statuses) != n_items or len(reasons) != n_fail:
        return False
    for it in items:
        itags = [c[0] for c in it[3]]
        st_i = itags.index(T.RESULT_STATUS.value)
        has_reason = T.RESULT_REASON.value in itags
        has_msg = T.RESULT_MESSAGE.value in itags
        if has_reason != has_msg:
            return False
    return True


def error_response(version):
    """engine.build_error_response (used by the session for parse/auth/size failures)."""
    from kv import stubs
    from kv.stubs import mk_engine, NoTracing
    from kmip.core.messages import contents
    version = tuple(version)
    reasons = list(enums.ResultReason)

    def h(ri: int, msg: str, stamp: int) -> bool:
        """
        post: _
        """
        if not (0 <= ri < len(reasons)) or len(msg) > 3 or not (0 <= stamp < 2 ** 40):
            return True
        for ch in msg:
            if ord(ch) > 127:
                return True
        e, s = mk_engine([], now=stamp)
        with NoTracing():
            pv = contents.ProtocolVersion(version[0], version[1])
        resp = e.build_error_response(pv, reasons[ri], msg)
        st = utils.BytearrayStream()
        resp.write(st, kmip_version=stubs.KMIP_VERSION[version])
        reach()
        buf = bytes(st.buffer)
        if not _envelope_ok(buf, version, 1):
            return False
        vals = R.leaf_values(buf)
        return (vals.get(enums.Tags.RESULT_STATUS.value) == [enums.ResultStatus.OPERATION_FAILED.value]
                and vals.get(enums.Tags.RESULT_REASON.value) == [reasons[ri].value]
                and vals.get(enums.Tags.TIME_STAMP.value) == [stamp])
    return h


def conditions(tier):
    from harness.c01 import enum_classes
    thorough = tier == "thorough"
    out = []
    for cls in ("Integer", "LongInteger", "DateTime", "Interval"):
        out.append(Cond("diff-%s" % cls, "diff_int", dict(cls=cls),
                        bounds="any value the constructor accepts; tag among %d" % len(TAGS), timeout=120, part="A"))
    out.append(Cond("diff-Boolean", "diff_bool", {}, bounds="both values; tag among %d" % len(TAGS), timeout=60,
                    part="A"))
    n = 17 if thorough else 9
    out.append(Cond("diff-ByteString", "diff_bytes", dict(maxlen=n), bounds="len <= %d, content arbitrary" % n,
                    timeout=900 if thorough else 240, part="A"))
    out.append(Cond("diff-TextString", "diff_text", dict(maxlen=n), bounds="len <= %d, ASCII content arbitrary" % n,
                    timeout=900 if thorough else 240, part="A"))
    bits = 12 if thorough else 8
    out.append(Cond("diff-BigInteger", "diff_big", dict(bits=bits), bounds="|v| < 2^%d" % bits,
                    timeout=900 if thorough else 240, part="A"))
    out.append(Cond("diff-BigInteger-pinned", "diff_big_pinned", {},
                    bounds="pinned boundary points %r (regression points, not a solver claim)" % (BIG_PINS,),
                    timeout=120, part="A"))
    names = enum_classes() if thorough else ["Types", "Operation", "ResultReason", "CryptographicAlgorithm",
                                             "CryptographicUsageMask", "State", "ResultStatus", "ObjectType"]
    for name in names:
        out.append(Cond("diff-Enumeration-%s" % name, "diff_enum", dict(enum_name=name),
                        bounds="every member of enums.%s; tag among %d" % (name, len(TAGS)), timeout=600, part="A"))
    from kv import stubs
    versions = stubs.VERSIONS if thorough else [(1, 0), (1, 4), (2, 0)]
    for v in versions:
        for beci in (0, 1, 2):
            for k in ((1, 2, 3) if thorough else (1, 2)):
                out.append(Cond("envelope-n%d-%d.%d-bec%d" % (k, v[0], v[1], beci), "envelope",
                                dict(n=k, version=list(v), beci=beci),
                                bounds="%d items; per item success / one of 7 KmipError classes / other exception; "
                                       "batch IDs all present or all absent; time stamp any 40-bit value" % k,
                                timeout=600, part="C"))
        out.append(Cond("error-response-%d.%d" % v, "error_response", dict(version=list(v)),
                        bounds="every ResultReason member, ASCII message len<=3, time stamp any 40-bit value",
                        timeout=300, part="C"))
    return out
