"""C01 - TTLV codec round trip (DESIGN.md section 2, C01).

Family 1: primitive, value symbolic.     Family 2: primitive, decode direction.
Family 3: structures, presence/leaf symbolic (see harness/structs.py builders).
"""
from kv import rt
from kv.rt import Cond, reach

from kmip.core import enums, primitives, utils
from kmip.core import exceptions as kex

TAGS = {
    "DEFAULT": enums.Tags.DEFAULT,
    "CRYPTOGRAPHIC_LENGTH": enums.Tags.CRYPTOGRAPHIC_LENGTH,
    "UNIQUE_IDENTIFIER": enums.Tags.UNIQUE_IDENTIFIER,
    "KEY_MATERIAL": enums.Tags.KEY_MATERIAL,
    "LEASE_TIME": enums.Tags.LEASE_TIME,
    "ACTIVATION_DATE": enums.Tags.ACTIVATION_DATE,
    "SENSITIVE": enums.Tags.SENSITIVE,
}


def _enc(x, version=enums.KMIPVersion.KMIP_1_0):
    s = utils.BytearrayStream()
    x.write(s, kmip_version=version)
    return s.buffer


def _roundtrip(mk, new, v):
    """Shared body: construct, encode, decode, compare, re-encode.

    mk(v) builds the value (constructor may reject -> not a constructible value);
    new() builds an empty instance to decode into.
    """
    try:
        x = mk(v)
    except (TypeError, ValueError):
        return True
    b = _enc(x)                       # any exception here is a violation
    if len(b) % 8 != 0:
        return False
    y = new()
    y.read(utils.BytearrayStream(b))  # any exception here is a violation
    reach()
    if not (y == x):
        return False
    if y.value != x.value:
        return False
    b2 = _enc(y)
    return b2 == b


def rt_int(cls, tag):
    c = getattr(primitives, cls)
    t = TAGS[tag]
    zero = (lambda: c(0, tag=t))  # DateTime() without a value reads the clock

    def h(v: int) -> bool:
        """
        post: _
        """
        return _roundtrip(lambda v: c(v, tag=t), zero, v)
    return h


def rt_uint(tag):
    t = TAGS[tag]

    def h(v: int) -> bool:
        """
        post: _
        """
        return _roundtrip(lambda v: primitives.Integer(v, tag=t, signed=False),
                          lambda: primitives.Integer(tag=t, signed=False), v)
    return h


def rt_bool(tag):
    t = TAGS[tag]

    def h(v: bool) -> bool:
        """
        post: _
        """
        return _roundtrip(lambda v: primitives.Boolean(v, tag=t), lambda: primitives.Boolean(tag=t), v)
    return h


def rt_bytes(tag, maxlen):
    t = TAGS[tag]

    def h(v: bytes) -> bool:
        """
        post: _
        """
        if len(v) > maxlen:
            return True
        return _roundtrip(lambda v: primitives.ByteString(v, tag=t), lambda: primitives.ByteString(tag=t), v)
    return h


def rt_text(tag, maxlen, ascii_only):
    t = TAGS[tag]

    def h(v: str) -> bool:
        """
        post: _
        """
        if len(v) > maxlen:
            return True
        if ascii_only:
            for ch in v:
                if ord(ch) > 127:
                    return True
        return _roundtrip(lambda v: primitives.TextString(v, tag=t), lambda: primitives.TextString(tag=t), v)
    return h


ENUM_CLASSES = None


def enum_classes():
    """All IntEnum-like classes in kmip.core.enums usable in an Enumeration."""
    global ENUM_CLASSES
    if ENUM_CLASSES is None:
        import enum as _enum
        out = []
        for name in sorted(dir(enums)):
            o = getattr(enums, name)
            if isinstance(o, type) and issubclass(o, _enum.Enum) and o is not _enum.Enum:
                members = list(o)
                if members and all(type(m.value) is int for m in members):
                    out.append(name)
        ENUM_CLASSES = out
    return ENUM_CLASSES


def rt_enum(enum_name, tag):
    e = getattr(enums, enum_name)
    members = list(e)
    t = TAGS[tag]

    def h(i: int) -> bool:
        """
        post: _
        """
        if i < 0 or i >= len(members):
            return True
        return _roundtrip(lambda i: primitives.Enumeration(e, members[i], tag=t),
                          lambda: primitives.Enumeration(e, tag=t), i)
    return h


def rt_big(bits):
    lim = 1 << bits

    def h(v: int) -> bool:
        """
        post: _
        """
        if v <= -lim or v >= lim:
            return True
        return _roundtrip(lambda v: primitives.BigInteger(v), lambda: primitives.BigInteger(), v)
    return h


BIG_PINS = [0, 1, -1, 255, -256, 2 ** 63 - 1, 2 ** 63, -2 ** 63, -2 ** 63 - 1, 2 ** 64 - 1, 2 ** 64,
            -2 ** 64, -(2 ** 64 - 1), 2 ** 127 - 1, -2 ** 127, 2 ** 127]


def rt_big_pinned():
    def h(i: int) -> bool:
        """
        post: _
        """
        if i < 0 or i >= len(BIG_PINS):
            return True
        return _roundtrip(lambda i: primitives.BigInteger(BIG_PINS[i]), lambda: primitives.BigInteger(), i)
    return h


# ---- family 2: decode direction, concrete skeleton, symbolic value+padding bytes ----

_TYPES = {
    "Integer": (enums.Types.INTEGER, 4, lambda t: primitives.Integer(tag=t)),
    "LongInteger": (enums.Types.LONG_INTEGER, 8, lambda t: primitives.LongInteger(tag=t)),
    "DateTime": (enums.Types.DATE_TIME, 8, lambda t: primitives.DateTime(0, tag=t)),
    "Interval": (enums.Types.INTERVAL, 4, lambda t: primitives.Interval(tag=t)),
    "Boolean": (enums.Types.BOOLEAN, 8, lambda t: primitives.Boolean(tag=t)),
    "ByteString": (enums.Types.BYTE_STRING, None, lambda t: primitives.ByteString(tag=t)),
    "TextString": (enums.Types.TEXT_STRING, None, lambda t: primitives.TextString(tag=t)),
    "BigInteger": (enums.Types.BIG_INTEGER, None, lambda t: primitives.BigInteger(tag=t)),
    "Enumeration": (enums.Types.ENUMERATION, 4,
                    lambda t: primitives.Enumeration(enums.CryptographicAlgorithm, tag=t)),
}


def dec_prim(cls, length, template=None, sym=None):
    """Decode direction.  The TTLV skeleton (tag, type, length) is concrete; the value and
    padding bytes are symbolic - all of them (template None) or those at positions ``sym``
    of the hex ``template`` (used where the decoder's error text realises the value)."""
    typ, fixed, new = _TYPES[cls]
    t = enums.Tags.DEFAULT
    L = fixed if fixed is not None else length
    padded = L + ((8 - L % 8) % 8)
    head = bytes([0x42, 0x00, 0x00, typ.value, 0, 0, 0, L])
    tmpl = bytes.fromhex(template) if template is not None else None
    nsym = padded if tmpl is None else len(sym)

    def h(body: bytes) -> bool:
        """
        post: _
        """
        if len(body) != nsym:
            return True
        if tmpl is None:
            buf = head + body
        else:
            parts = []
            k = 0
            for pos in range(padded):
                if pos in sym:
                    parts.append(body[k:k + 1])
                    k += 1
                else:
                    parts.append(tmpl[pos:pos + 1])
            buf = head + b"".join(parts)
        x = new(t)
        try:
            x.read(utils.BytearrayStream(buf))
        except Exception:
            return True            # decoder rejects: nothing to round-trip (C12 covers rejection)
        reach()
        b2 = _enc(x)               # the statement asks decode-encode-decode == decode (values), not b2 == buf
        if len(b2) % 8 != 0:
            return False
        y = new(t)
        y.read(utils.BytearrayStream(b2))
        return y == x and y.value == x.value
    return h


def conditions(tier):
    thorough = tier == "thorough"
    out = []
    n = 17 if thorough else 9
    for cls in ("Integer", "LongInteger", "DateTime", "Interval"):
        out.append(Cond("prim-rt-%s" % cls, "rt_int", dict(cls=cls, tag="DEFAULT"),
                        bounds="value: any int the constructor accepts", timeout=60, part="primitive"))
    out.append(Cond("prim-rt-Integer-unsigned", "rt_uint", dict(tag="CRYPTOGRAPHIC_LENGTH"),
                    bounds="value: any int; signed=False (an option no library code uses)", timeout=60,
                    part="primitive"))
    out.append(Cond("prim-rt-Boolean", "rt_bool", dict(tag="SENSITIVE"), bounds="both values", timeout=60,
                    part="primitive"))
    out.append(Cond("prim-rt-ByteString", "rt_bytes", dict(tag="KEY_MATERIAL", maxlen=n),
                    bounds="len <= %d, content arbitrary" % n, timeout=600 if thorough else 120,
                    part="primitive"))
    out.append(Cond("prim-rt-TextString-ascii", "rt_text", dict(tag="UNIQUE_IDENTIFIER", maxlen=n, ascii_only=True),
                    bounds="len <= %d, ASCII content arbitrary" % n, timeout=600 if thorough else 120,
                    part="primitive"))
    out.append(Cond("prim-rt-TextString-any", "rt_text", dict(tag="UNIQUE_IDENTIFIER", maxlen=2, ascii_only=False),
                    bounds="len <= 2, any code points", timeout=120, part="primitive"))
    bits = 12 if thorough else 8
    out.append(Cond("prim-rt-BigInteger", "rt_big", dict(bits=bits),
                    bounds="|v| < 2^%d (str.format realises the value: one path per value)" % bits,
                    timeout=900 if thorough else 240, part="primitive"))
    out.append(Cond("prim-rt-BigInteger-pinned", "rt_big_pinned", {},
                    bounds="pinned concrete boundary points %r (regression points, not a solver claim)" % (BIG_PINS,),
                    timeout=120, part="primitive"))
    names = enum_classes()
    for name in names:
        out.append(Cond("prim-rt-Enumeration-%s" % name, "rt_enum", dict(enum_name=name, tag="DEFAULT"),
                        bounds="every member of enums.%s" % name, timeout=300, part="enumeration"))
    for cls in ("Integer", "LongInteger", "DateTime", "Interval", "Enumeration"):
        out.append(Cond("prim-dec-%s" % cls, "dec_prim", dict(cls=cls, length=0),
                        bounds="concrete tag/type/length, all value+padding bytes symbolic", timeout=300,
                        part="decode"))
    lens = (0, 1, 5, 8, 9, 16) if thorough else (0, 1, 5, 8)
    for cls in ("ByteString", "TextString"):
        for L in lens:
            out.append(Cond("prim-dec-%s-len%d" % (cls, L), "dec_prim", dict(cls=cls, length=L),
                            bounds="declared length %d, value+padding bytes symbolic" % L, timeout=300,
                            part="decode"))
    # Boolean / BigInteger: the decoder formats the value into text (error message, binary string),
    # which realises it - one path per value - so one byte is symbolic per condition.
    for pos in range(8):
        out.append(Cond("prim-dec-Boolean-byte%d" % pos, "dec_prim",
                        dict(cls="Boolean", length=8, template="00" * 8, sym=[pos]),
                        bounds="byte %d arbitrary, other value bytes 00" % pos, timeout=300, part="decode"))
    out.append(Cond("prim-dec-Boolean-byte0-low1", "dec_prim",
                    dict(cls="Boolean", length=8, template="00" * 7 + "01", sym=[0]),
                    bounds="byte 0 arbitrary, value 1", timeout=300, part="decode"))
    for L in ((8, 16) if thorough else (8,)):
        for fill in ("00", "ff"):
            for pos in sorted({0, 1, L - 1}):
                out.append(Cond("prim-dec-BigInteger-len%d-fill%s-byte%d" % (L, fill, pos), "dec_prim",
                                dict(cls="BigInteger", length=L, template=fill * L, sym=[pos]),
                                bounds="declared length %d; byte %d arbitrary, other bytes %s" % (L, pos, fill),
                                timeout=300, part="decode"))
    return out
