"""C12 - the session answers any bytes safely, once, and keeps going (DESIGN.md section 2, C12).

1. framing    real _receive_request/_receive_bytes over a FakeConnection whose recv() hands the
              stream out in chunks of symbolic sizes; body bytes symbolic; early end / trailing data.
2. one_response  real _handle_message_loop twice on one connection (first iteration: certificate
              shape, parser outcome, identity, engine outcome, response size and client maximum all
              symbolic; second iteration: a good request) - exactly one well-formed answer each,
              engine reached only after certificate check, full parse and authentication, right error
              class, oversize replacement, nothing escapes.
3. corrupt    the real request decoder and the real engine behind the real message loop; a valid
              request with one byte (symbolic position in a window, symbolic value) replaced.
"""
from typing import Optional

from kv import rt
from kv.rt import Cond, reach
from kv import stubs, sessstubs as SS, payloads as P, ttlv_ref as R
from kv.stubs import mk_engine, mk_obj, snapshot, NoTracing
from harness.c08 import mk_request
from harness.c02 import _envelope_ok

from kmip.core import enums, utils, attributes
from kmip.core import exceptions as kex
from kmip.core.messages import contents, messages, payloads
from kmip.services.server import session as session_mod

OP = enums.Operation
RR = enums.ResultReason
T = enums.Tags


def framing(L, k=4):
    header = bytes([0x42, 0x00, 0x78, 0x01]) + bytes(R.be(L, 4))
    top = 8 + L + 2

    def h(data: bytes, c0: int, c1: int, c2: int, c3: int) -> bool:
        """
        post: _
        """
        if len(data) > L + 2:
            return True
        cs = [c0, c1, c2, c3]
        for i, c in enumerate(cs):
            if not (1 <= c <= top):
                return True
            if i >= k and c != top:
                return True                   # only the first k chunk sizes are free
        conn = SS.FakeConnection(header + data, cs[:k])
        s = SS.mk_session(None, conn)
        try:
            got = s._receive_request()
        except kex.ConnectionClosed:
            reach()
            # legitimate exactly when the peer closed before the advertised length arrived
            return len(data) < L
        reach()
        if len(data) < L:
            return False
        if bytes(got.buffer) != header + data[:L]:
            return False
        if conn.pos != 8 + L:
            return False                       # over- or under-consumed: the next frame is damaged
        return conn.stream[conn.pos:] == data[L:]
    return h


def framing_huge(L):
    """A frame that announces far more than arrives: the only legitimate outcome is ConnectionClosed
    when the peer goes away (no other exception, nothing sent, nothing consumed beyond the stream)."""
    header = bytes([0x42, 0x00, 0x78, 0x01]) + bytes(R.be(L, 4))

    def h(data: bytes, c0: int, c1: int) -> bool:
        """
        post: _
        """
        if len(data) > 2 or not (1 <= c0 <= 12 and 1 <= c1 <= 12):
            return True
        conn = SS.FakeConnection(header + data, [c0, c1])
        s = SS.mk_session(None, conn)
        try:
            s._receive_request()
        except kex.ConnectionClosed:
            reach()
            return conn.pos == 8 + len(data) and not conn.sent
        return False
    return h


class _Boom(Exception):
    pass


def _good_request(version=(1, 2), max_size=None):
    with NoTracing():
        req = mk_request([(OP.GET, None, P.mk("GET", "1", version=version))], version=version, max_size=max_size)
        st = utils.BytearrayStream()
        req.write(st, kmip_version=stubs.KMIP_VERSION[tuple(version)])
        return bytes(st.buffer)


def _mk_response(e, version, n):
    """A response of the engine's own making whose size grows with n."""
    with NoTracing():
        pv = contents.ProtocolVersion(version[0], version[1])
        item = messages.ResponseBatchItem(
            operation=contents.Operation(OP.GET),
            result_status=contents.ResultStatus(enums.ResultStatus.SUCCESS),
            response_payload=payloads.DestroyResponsePayload(unique_identifier=attributes.UniqueIdentifier("x" * n)))
    return e._build_response(pv, [item])


def _reason_of(buf):
    vals = R.leaf_values(buf)
    rs = vals.get(T.RESULT_REASON.value, [])
    return rs[0] if rs else None


def _version_of(buf):
    vals = R.leaf_values(buf)
    return (vals.get(T.PROTOCOL_VERSION_MAJOR.value, [None])[0], vals.get(T.PROTOCOL_VERSION_MINOR.value, [None])[0])


def one_response(version, resp_n):
    version = tuple(version)
    good = _good_request(version)

    def h(cert_sel: int, tls_auth: bool, ncn: int, parse_sel: int, eng_sel: int, has_max: bool, mx: int) -> bool:
        """
        post: _
        """
        if not (0 <= cert_sel <= 3 and 0 <= ncn <= 2 and 0 <= parse_sel <= 2 and 0 <= eng_sel <= 2):
            return True
        if not (0 <= mx <= 4096):
            return True
        if ncn == 0:
            cns = []
        elif ncn == 1:
            cns = ["alice"]
        else:
            cns = ["alice", "bob"]
        if cert_sel == 0:
            cert = None
        elif cert_sel == 1:
            cert = SS.FakeCert(cns, None)
        elif cert_sel == 2:
            cert = SS.FakeCert(cns, [SS.SERVER_AUTH])
        else:
            cert = SS.FakeCert(cns, [SS.SERVER_AUTH, SS.CLIENT_AUTH])
        e, store = mk_engine([mk_obj("SymmetricKey", uid=1, state=enums.State.ACTIVE)], version=version)
        engine_calls = []
        iteration = [0]
        canned = _mk_response(e, version, resp_n)
        canned_bytes_s = utils.BytearrayStream()
        canned.write(canned_bytes_s, kmip_version=stubs.KMIP_VERSION[version])
        canned_bytes = bytes(canned_bytes_s.buffer)

        def fake_process_request(request, credential=None):
            engine_calls.append((iteration[0], credential))
            if iteration[0] == 0:
                if eng_sel == 1:
                    raise kex.ItemNotFound("no such thing")
                if eng_sel == 2:
                    raise _Boom("internal")
                return canned, (mx if has_max else None), request.request_header.protocol_version
            return canned, None, request.request_header.protocol_version
        e.process_request = fake_process_request

        parse_log = []

        class ScriptedRequest(messages.RequestMessage):
            def read(self, istream, kmip_version=enums.KMIPVersion.KMIP_1_0):
                if iteration[0] == 0 and parse_sel == 1:
                    parse_log.append("raised")
                    raise kex.InvalidKmipEncoding("bad encoding")
                if iteration[0] == 0 and parse_sel == 2:
                    parse_log.append("raised")
                    raise AttributeError("'NoneType' object has no attribute 'value'")
                super(ScriptedRequest, self).read(istream, kmip_version=kmip_version)
                parse_log.append("ok")
        saved = session_mod.messages
        session_mod.messages = type(saved)("messages_stub")
        session_mod.messages.RequestMessage = ScriptedRequest
        try:
            conn = SS.FakeConnection(good + good, cert=cert)
            s = SS.mk_session(e, conn, tls_auth=tls_auth)
            s._handle_message_loop()
            first = list(conn.sent)
            n_calls_first = len(engine_calls)
            # second iteration: a good request from a good client on the same connection
            iteration[0] = 1
            conn.cert = SS.FakeCert(["alice"], [SS.CLIENT_AUTH])
            SS._CURRENT_CERT[0] = conn.cert
            s._handle_message_loop()
        finally:
            session_mod.messages = saved
        reach()
        if len(first) != 1 or len(conn.sent) != 2:
            return False
        if conn.pos != 2 * len(good):
            return False
        # --- first answer
        b0 = bytes(first[0])
        cert_ok = cert_sel != 0 and (not tls_auth or cert_sel == 3)
        parse_ok = parse_sel == 0
        ident_ok = ncn == 1
        reached = cert_ok and parse_ok and ident_ok
        if (n_calls_first == 1) != reached or n_calls_first > 1:
            return False
        if reached and engine_calls[0][1] != ("alice", None):
            return False
        if not cert_ok:
            if parse_log and parse_log[0] != "ok" and iteration[0] == 0:
                return False
            want, wver = RR.AUTHENTICATION_NOT_SUCCESSFUL, (1, 0)
        elif not parse_ok:
            want, wver = RR.INVALID_MESSAGE, (1, 0)
        elif not ident_ok:
            want, wver = RR.AUTHENTICATION_NOT_SUCCESSFUL, version
        elif eng_sel == 1:
            want, wver = RR.ITEM_NOT_FOUND, version
        elif eng_sel == 2:
            want, wver = RR.GENERAL_FAILURE, version
        elif has_max and mx != 0 and len(canned_bytes) > mx:
            want, wver = RR.RESPONSE_TOO_LARGE, version
        else:
            want, wver = None, version
        if not _envelope_ok(b0, wver, 1):
            return False
        if want is None:
            if b0 != canned_bytes:
                return False
        else:
            if _reason_of(b0) != want.value:
                return False
        # --- second answer: served normally
        if len(engine_calls) != n_calls_first + 1 or engine_calls[-1] != (1, ("alice", None)):
            return False
        return bytes(conn.sent[1]) == canned_bytes
    return h


# ---- 3. real decoder + real engine, one corrupted byte -----------------------------------------

def _seed(kind):
    with NoTracing():
        if kind == "get-1.2":
            v, items = (1, 2), [(OP.GET, None, P.mk("GET", "1"))]
        elif kind == "activate-1.0":
            v, items = (1, 0), [(OP.ACTIVATE, None, P.mk("ACTIVATE", "2"))]
        elif kind == "destroy-2.0":
            v, items = (2, 0), [(OP.DESTROY, None, P.mk("DESTROY", "2", version=(2, 0)))]
        elif kind == "locate-1.4":
            v, items = (1, 4), [(OP.LOCATE, None, P.mk("LOCATE", maximum_items=2, attributes=[P.name_attr("n0")]))]
        elif kind == "encrypt-1.2":
            v, items = (1, 2), [(OP.ENCRYPT, None, P.mk("ENCRYPT", "1", data=b"\x0a" * 12, iv=b"\x0b" * 16))]
        elif kind == "batch-1.2":
            v, items = (1, 2), [(OP.ACTIVATE, b"a", P.mk("ACTIVATE", "2")), (OP.GET, b"b", P.mk("GET", None))]
        else:
            raise ValueError(kind)
        req = mk_request(items, version=v)
        st = utils.BytearrayStream()
        req.write(st, kmip_version=stubs.KMIP_VERSION[v])
        return v, bytes(st.buffer)


SEEDS = ["get-1.2", "activate-1.0", "destroy-2.0", "locate-1.4", "batch-1.2", "encrypt-1.2"]


def seed_len(kind):
    return len(_seed(kind)[1])


def corrupt(kind, lo, hi):
    version, seed = _seed(kind)
    n = len(seed)

    def h(p: int, b: int) -> bool:
        """
        post: _
        """
        if not (lo <= p < hi and p < n and 0 <= b <= 255):
            return True
        buf = None
        for q in range(lo, min(hi, n)):
            if p == q:
                buf = seed[:q] + bytes([b]) + seed[q + 1:]
        objs = [mk_obj("SymmetricKey", uid=1, state=enums.State.ACTIVE, names=["n0"]),
                mk_obj("SymmetricKey", uid=2, state=enums.State.PRE_ACTIVE, names=["n1"])]
        e, store = mk_engine(objs, version=(1, 2), crypto=P.RecordingCrypto())
        before = [snapshot(o) for o in store.objs]
        calls = []
        parsed = []
        real_pr = e.process_request

        def spy_process_request(request, credential=None):
            calls.append(len(parsed))
            return real_pr(request, credential)
        e.process_request = spy_process_request

        class SpyRequest(messages.RequestMessage):
            def read(self, istream, kmip_version=enums.KMIPVersion.KMIP_1_0):
                super(SpyRequest, self).read(istream, kmip_version=kmip_version)
                parsed.append(True)
        saved = session_mod.messages
        session_mod.messages = type(saved)("messages_stub")
        session_mod.messages.RequestMessage = SpyRequest
        conn = SS.FakeConnection(buf, cert=SS.FakeCert(["alice"], [SS.CLIENT_AUTH]))
        s = SS.mk_session(e, conn)
        # advertised length as the (possibly corrupted) header states it
        adv = ((buf[4] * 256 + buf[5]) * 256 + buf[6]) * 256 + buf[7]
        try:
            try:
                s._handle_message_loop()
            finally:
                session_mod.messages = saved
        except kex.ConnectionClosed:
            reach()
            # only legitimate when the stream ended before the advertised length
            return 8 + adv > n and not conn.sent and not calls and [snapshot(o) for o in store.objs] == before
        reach()
        if 8 + adv > n:
            return False                      # answered a request that was never completely received
        if len(conn.sent) != 1:
            return False
        out = bytes(conn.sent[0])
        try:
            top = R.well_formed_message(out)
        except R.Malformed:
            return False
        if top[0] != T.RESPONSE_MESSAGE.value:
            return False
        vals = R.leaf_values(out)
        n_items = vals.get(T.BATCH_COUNT.value, [None])[0]
        if not _envelope_ok(out, _version_of(out), n_items):
            return False
        if calls and not parsed:
            return False                      # engine reached without a complete decode
        if calls and R.structural_defect(buf) is not None:
            return False                      # a request with inconsistent length fields was executed
        if calls:
            # the announced Batch Count and the batch items actually present agree (read off the bytes)
            n_items = sum(1 for t_ in R.top_children_tags(buf) if t_ == T.BATCH_ITEM.value)
            announced = R.leaf_values(buf).get(T.BATCH_COUNT.value, [None])[0]
            if announced is None or announced > n_items:
                return False                  # announced items are missing, yet part of the request was executed
            # (announced < present: the decoder ignores what follows the announced items - trailing data
            # is not checked by RequestMessage.read; the announced request is what was executed)
        if len(calls) > 1:
            return False
        if not parsed:
            # undecodable: invalid-message answer, nothing executed, store untouched
            if _reason_of(out) != RR.INVALID_MESSAGE.value:
                return False
            if [snapshot(o) for o in store.objs] != before or store.log:
                return False
        return True
    return h


def _struct_length_defect(kind, p, b):
    seed = _seed(kind)[1]
    return R.structural_defect(seed[:p] + bytes([b]) + seed[p + 1:]) == "structure"


# helpers available to the region predicates of known_findings.json (evaluated on failing paths only)
REGION_ENV = {"struct_length_defect": _struct_length_defect}


def conditions(tier):
    thorough = tier == "thorough"
    out = []
    plan = ([(0, 4), (1, 4), (5, 4), (8, 4), (16, 3), (24, 3), (40, 2)] if thorough
            else [(0, 4), (1, 4), (5, 3), (8, 3), (16, 2)])
    for L in (2 ** 20 + 16, 2 ** 31 - 8):
        out.append(Cond("framing-huge-len%d" % L, "framing_huge", dict(L=L),
                        bounds="advertised length %d with at most 2 body bytes before the peer closes; 2 arbitrary chunk "
                               "sizes" % L, timeout=300, part="framing"))
    for L, k in plan:
        out.append(Cond("framing-len%d" % L, "framing", dict(L=L, k=k),
                        bounds="advertised length %d; stream = header + up to %d arbitrary bytes; %d arbitrary chunk "
                               "sizes in [1,%d] then whatever is asked" % (L, L + 2, k, 8 + L + 2),
                        timeout=1800 if thorough else 300, part="framing"))
    versions = stubs.VERSIONS if thorough else [(1, 0), (1, 2), (2, 0)]
    for v in versions:
        for rn in ((1, 40) if thorough else (1,)):
            out.append(Cond("one-response-%d.%d-n%d" % (v[0], v[1], rn), "one_response", dict(version=list(v), resp_n=rn),
                            bounds="iteration 1: certificate absent / no EKU / EKU without / with clientAuth, TLS-auth "
                                   "flag, 0-2 common names, parser ok / KmipError / other exception, engine returns / "
                                   "KmipError / other exception, client maximum absent or any value in [0,4096]; "
                                   "iteration 2: good request, good client", timeout=900, part="one-response"))
    seeds = SEEDS if thorough else ["get-1.2", "batch-1.2", "encrypt-1.2"]
    win = 8
    for kind in seeds:
        n = seed_len(kind)
        for lo in range(0, n, win):
            out.append(Cond("corrupt-%s-%03d" % (kind, lo), "corrupt", dict(kind=kind, lo=lo, hi=min(lo + win, n)),
                            bounds="valid %s request (%d bytes) with the byte at one position in [%d,%d) replaced by "
                                   "any value" % (kind, n, lo, min(lo + win, n)), timeout=1200, part="corrupt"))
    return out
