"""C17 - no request is evaluated before the client's identity is established.

Real KmipSession._handle_message_loop + authenticate + auth helper functions + SLUGSConnector,
a real engine (stub store) behind the session.  Symbolic: certificate shape (absent / EKU absent /
EKU without / with clientAuth), the TLS-auth flag, 0-2 common names whose *text* is symbolic, and
per SLUGS block the URL presence and the outcome of its two HTTP calls.  The block kinds and
enabled flags are sliced per condition.  Oracle: a reference predicate written from the statement.
"""
from kv import rt
from kv.rt import Cond, reach
from kv import stubs, sessstubs as SS, payloads as P, ttlv_ref as R
from kv.stubs import mk_engine, mk_obj, snapshot, NoTracing
from harness.c08 import mk_request
from harness.c02 import _envelope_ok
from harness.c12 import _reason_of

from kmip.core import enums, utils
from kmip.core import exceptions as kex

OP = enums.Operation
RR = enums.ResultReason
VERSION = (1, 2)

KINDS = ["auth:slugs", "auth:slugs2", "auth:other"]       # block names
ENABLED = ["True", "False", None, "true"]                 # only the exact text "True" enables


def _request_bytes():
    with NoTracing():
        req = mk_request([(OP.CREATE, None, P.mk("CREATE"))], version=VERSION)
        st = utils.BytearrayStream()
        req.write(st, kmip_version=stubs.KMIP_VERSION[VERSION])
        return bytes(st.buffer)


class _HTTP(object):
    """requests.get stand-in: block i owns http://s<i>/ ; outcome chosen per block and endpoint."""

    def __init__(self, users, groups):
        self.users = users
        self.groups = groups
        self.calls = []

    def get(self, url, timeout=None):
        i = 0 if url.startswith("http://s0/") else (1 if url.startswith("http://s1/") else 2)
        is_groups = url.endswith("/groups")
        self.calls.append((i, is_groups))
        if is_groups:
            g = self.groups[i]
            if g == 0:
                return SS.FakeResponse(404, None)
            if g == 1:
                return SS.FakeResponse(200, {"groups": ["Group A", "Group B"]})
            if g == 2:
                return SS.FakeResponse(200, {})
            if g == 3:
                return SS.FakeResponse(200, None)          # body is not JSON
            raise ConnectionError("SLUGS unreachable")
        u = self.users[i]
        if u == 0:
            raise ConnectionError("SLUGS unreachable")
        if u == 1:
            return SS.FakeResponse(404, None)
        return SS.FakeResponse(200, {"user": "x"})


def auth_paths(blocks, bad_request=False):
    """blocks: list of [kind index, enabled index] (concrete slice).
    bad_request: the framed request does not decode (a byte of the batch count is damaged): whatever the
    certificate, nothing is evaluated; a certificate failure is still reported as such."""
    blocks = [tuple(b) for b in blocks]
    nb = len(blocks)
    reqb = _request_bytes()
    if bad_request:
        reqb = reqb[:11] + bytes([0x05]) + reqb[12:]        # type byte of the request header: not a structure

    def h(cert_sel: int, tls_auth: bool, ncn: int, cn0: str, cn1: str,
          url0: bool, users0: int, groups0: int, url1: bool, users1: int, groups1: int,
          url2: bool, users2: int, groups2: int) -> bool:
        """
        post: _
        """
        if not (0 <= cert_sel <= 3 and 0 <= ncn <= 2) or len(cn0) > 2 or len(cn1) > 2:
            return True
        urls = [url0, url1, url2]
        users = [users0, users1, users2]
        groups = [groups0, groups1, groups2]
        for i in range(3):
            if not (0 <= users[i] <= 2 and 0 <= groups[i] <= 4):
                return True
            if i >= nb and (urls[i] or users[i] or groups[i]):
                return True
        if ncn == 0:
            cns = []
        elif ncn == 1:
            cns = [cn0]
        else:
            cns = [cn0, cn1]
        if cert_sel == 0:
            cert = None
        elif cert_sel == 1:
            cert = SS.FakeCert(cns, None)
        elif cert_sel == 2:
            cert = SS.FakeCert(cns, [SS.SERVER_AUTH])
        else:
            cert = SS.FakeCert(cns, [SS.SERVER_AUTH, SS.CLIENT_AUTH])
        settings = []
        for i, (ki, ei) in enumerate(blocks):
            cfg = {}
            if ENABLED[ei] is not None:
                cfg["enabled"] = ENABLED[ei]
            if urls[i]:
                cfg["url"] = "http://s%d" % i
            settings.append((KINDS[ki], cfg))
        http = _HTTP(users, groups)
        SS.install_http(http)
        e, store = mk_engine([mk_obj("SymmetricKey", uid=1, owner="zed")], version=VERSION, crypto=P.RecordingCrypto())
        before = [snapshot(o) for o in store.objs]
        seen = []
        real_pr = e.process_request

        def spy(request, credential=None):
            seen.append(credential)
            return real_pr(request, credential)
        e.process_request = spy
        conn = SS.FakeConnection(reqb, cert=cert)
        s = SS.mk_session(e, conn, tls_auth=tls_auth, auth_settings=settings)
        s._handle_message_loop()
        reach()
        # ---- reference predicate (from the statement)
        cert_ok = cert_sel != 0 and (not tls_auth or cert_sel == 3)
        one_cn = ncn == 1
        identity = None
        if cert_ok:
            enabled = [i for i, (ki, ei) in enumerate(blocks) if KINDS[ki].startswith("auth:slugs") and ei == 0]
            if enabled:
                for i in enabled:
                    if urls[i] and one_cn and users[i] == 2 and groups[i] in (1, 2):
                        identity = (cn0, ["Group A", "Group B"] if groups[i] == 1 else None)
                        break
            elif one_cn:
                identity = (cn0, None)
        # ---- observations
        if len(conn.sent) != 1:
            return False
        out = bytes(conn.sent[0])
        if bad_request:
            if seen or store.log or [snapshot(o) for o in store.objs] != before:
                return False
            if not cert_ok:
                return _envelope_ok(out, (1, 0), 1) and _reason_of(out) == RR.AUTHENTICATION_NOT_SUCCESSFUL.value
            return _envelope_ok(out, (1, 0), 1) and _reason_of(out) == RR.INVALID_MESSAGE.value
        if identity is None:
            if seen:
                return False                                   # engine entered without an identity
            if store.log or [snapshot(o) for o in store.objs] != before:
                return False
            wver = VERSION if cert_ok else (1, 0)
            return _envelope_ok(out, wver, 1) and _reason_of(out) == RR.AUTHENTICATION_NOT_SUCCESSFUL.value
        if len(seen) != 1:
            return False
        got = seen[0]
        if got[0] != identity[0] or got[1] != identity[1] or len(got) != 2:
            return False
        # the request was evaluated for exactly that identity: the created object belongs to it
        if len(store.objs) != 2 or store.objs[1]._owner != identity[0]:
            return False
        return _envelope_ok(out, VERSION, 1) and _reason_of(out) is None
    return h


def conditions(tier):
    thorough = tier == "thorough"
    out = []
    menu = [(k, e) for k in range(len(KINDS)) for e in range(len(ENABLED))]
    if not thorough:
        menu = [(0, 0), (0, 1), (0, 2), (2, 0), (2, 1)]
    slices = [[]] + [[b] for b in menu] + [[a, b] for a in menu for b in menu]
    if thorough:
        core = [(0, 0), (0, 1), (2, 0)]
        slices += [[a, b, c] for a in core for b in core for c in core]
    out.append(Cond("auth-undecodable-request", "auth_paths", dict(blocks=[], bad_request=True),
                    bounds="no plugin blocks; the framed request does not decode; certificate shape, TLS-auth flag and "
                           "common names symbolic as elsewhere", timeout=600, part="auth"))
    for sl in slices:
        name = "auth-" + ("none" if not sl else "+".join("%s:%s" % (KINDS[k].split(":")[1], ENABLED[e]) for k, e in sl))
        out.append(Cond(name, "auth_paths", dict(blocks=[list(b) for b in sl]),
                        bounds="plugin blocks %s; certificate absent / no EKU / EKU without / with clientAuth; TLS-auth "
                               "flag; 0-2 common names of any text len<=2; per block: URL present?, users call "
                               "unreachable/404/200, groups call 404/200+groups/200 without groups/not JSON/unreachable"
                               % ([(KINDS[k], ENABLED[e]) for k, e in sl],), timeout=900, part="auth"))
    return out
