"""C11 - requests are isolated from each other's transient state (2-run product harness).

Run A: an engine whose transient fields hold whatever any earlier history may have left
(symbolic ID placeholder, any protocol version and attribute policy, any identity, the
asynchronous flag).  Run B: a fresh engine.  Same store, same request, same credential:
the two responses must encode to the same bytes and leave equal stores.
"""
from typing import Optional

from kv import rt
from kv.rt import Cond, reach
from kv import stubs, payloads as P
from kv.stubs import mk_engine, mk_obj, snapshot, NoTracing
from harness.c08 import mk_request

from kmip.core import enums, utils
from kmip.core.messages import contents
from kmip.services.server import policy as spolicy

OP = enums.Operation
ST = enums.State
M = enums.CryptographicUsageMask

PROBES = ["GET", "GET_ATTRIBUTES", "GET_ATTRIBUTE_LIST", "ACTIVATE", "REVOKE", "DESTROY", "DELETE_ATTRIBUTE",
          "MODIFY_ATTRIBUTE", "SET_ATTRIBUTE", "ENCRYPT", "DECRYPT", "SIGN", "SIGNATURE_VERIFY", "MAC",
          "LOCATE", "QUERY", "DISCOVER_VERSIONS", "CREATE"]


def _store():
    a = mk_obj("SymmetricKey", uid=1, owner="alice", names=["n0", "n1"], state=ST.ACTIVE, masks=list(M))
    b = mk_obj("SecretData", uid=2, owner="bob", names=["s"], state=ST.PRE_ACTIVE, masks=[])
    return [a, b]


def _encode(resp, version):
    s = utils.BytearrayStream()
    resp.write(s, kmip_version=stubs.KMIP_VERSION[version])
    return s.buffer


def isolation(op, version):
    version = tuple(version)

    def h(placeholder: Optional[str], dirty_version: int, dirty_user: str, dirty_async: bool,
          uid_sel: int, user_is_owner: bool) -> bool:
        """
        post: _
        """
        if placeholder is not None and len(placeholder) > 2:
            return True
        if not (0 <= dirty_version < len(stubs.VERSIONS)) or len(dirty_user) > 1 or not (0 <= uid_sel <= 2):
            return True
        uid = [None, "1", "3"][uid_sel]
        user = "alice" if user_is_owner else "carol"
        outs = []
        for dirty in (True, False):
            objs = _store()
            e, s = mk_engine(objs, identity=(None, None), version=(1, 2), crypto=P.RecordingCrypto())
            if dirty:
                dv = stubs.VERSIONS[dirty_version]
                e._id_placeholder = placeholder
                with NoTracing():
                    e._protocol_version = contents.ProtocolVersion(dv[0], dv[1])
                    e._attribute_policy = spolicy.AttributePolicy(e._protocol_version)
                e._client_identity = [dirty_user, ["g"]]
                e.is_asynchronous = dirty_async
            with NoTracing():
                payload = P.mk(op, uid, version=version)
                req = mk_request([(getattr(OP, op), None, payload)], version=version)
            resp, max_size, pv = e.process_request(req, [user, None])
            outs.append((_encode(resp, version), max_size, str(pv), [snapshot(x) for x in s.objs], len(s.objs)))
        reach()
        return outs[0] == outs[1]
    return h


def conditions(tier):
    thorough = tier == "thorough"
    out = []
    versions = stubs.VERSIONS if thorough else [(1, 2), (2, 0)]
    for op in PROBES:
        for v in versions:
            if tuple(v) < P.MIN_VERSION.get(op, (1, 0)) and not thorough:
                continue
            out.append(Cond("isolation-%s-%d.%d" % (op, v[0], v[1]), "isolation", dict(op=op, version=list(v)),
                            bounds="probe %s under KMIP %d.%d with identifier absent/existing/unknown, requester owner or "
                                   "not; dirty pre-state: placeholder None or any string len<=2, any of the 6 protocol "
                                   "versions + its attribute policy, identity string len<=1 with a group, async flag"
                                   % (op, v[0], v[1]), timeout=600, part="isolation"))
    return out
