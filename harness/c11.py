"""C11 - requests are isolated from each other's transient state (2-run product harness).

Run A: an engine whose transient fields hold whatever any earlier history may have left
(symbolic ID placeholder, any protocol version and attribute policy, any identity, the
asynchronous flag).  Run B: a fresh engine.  Same store, same request, same credential:
the two responses must encode to the same bytes and leave equal stores.
"""
from typing import Optional

from kv import rt
from kv.rt import Cond, reach
from kv import stubs, payloads as P
from kv.stubs import mk_engine, mk_obj, snapshot, NoTracing
from harness.c08 import mk_request

from kmip.core import enums, utils
from kmip.core.messages import contents
from kmip.services.server import policy as spolicy

OP = enums.Operation
ST = enums.State
M = enums.CryptographicUsageMask

PROBES = ["GET", "GET_ATTRIBUTES", "GET_ATTRIBUTE_LIST", "ACTIVATE", "REVOKE", "DESTROY", "DELETE_ATTRIBUTE",
          "MODIFY_ATTRIBUTE", "SET_ATTRIBUTE", "ENCRYPT", "DECRYPT", "SIGN", "SIGNATURE_VERIFY", "MAC",
          "LOCATE", "QUERY", "DISCOVER_VERSIONS", "CREATE"]


def _store():
    a = mk_obj("SymmetricKey", uid=1, owner="alice", names=["n0", "n1"], state=ST.ACTIVE, masks=list(M))
    b = mk_obj("SecretData", uid=2, owner="bob", names=["s"], state=ST.PRE_ACTIVE, masks=[])
    return [a, b]


def _encode(resp, version):
    s = utils.BytearrayStream()
    resp.write(s, kmip_version=stubs.KMIP_VERSION[version])
    return s.buffer


def isolation(op, version):
    version = tuple(version)

    def h(placeholder: Optional[str], dirty_version: int, dirty_user: str, dirty_async: bool,
          uid_sel: int, user_is_owner: bool) -> bool:
        """
        post: _
        """
        if placeholder is not None and len(placeholder) > 2:
            return True
        if not (0 <= dirty_version < len(stubs.VERSIONS)) or len(dirty_user) > 1 or not (0 <= uid_sel <= 2):
            return True
        uid = [None, "1", "3"][uid_sel]
        user = "alice" if user_is_owner else "carol"
        outs = []
        frames_ok = True
        for dirty in (True, False):
            objs = _store()
            e, s = mk_engine(objs, identity=(None, None), version=(1, 2), crypto=P.RecordingCrypto())
            if dirty:
                dv = stubs.VERSIONS[dirty_version]
                e._id_placeholder = placeholder
                with NoTracing():
                    e._protocol_version = contents.ProtocolVersion(dv[0], dv[1])
                    e._attribute_policy = spolicy.AttributePolicy(e._protocol_version)
                e._client_identity = [dirty_user, ["g"]]
                e.is_asynchronous = dirty_async
            with NoTracing():
                payload = P.mk(op, uid, version=version)
                req = mk_request([(getattr(OP, op), None, payload)], version=version)
            with NoTracing():
                frame0 = stubs.engine_frame(e)
            resp, max_size, pv = e.process_request(req, [user, None])
            outs.append((_encode(resp, version), max_size, str(pv), [snapshot(x) for x in s.objs], len(s.objs)))
            # no request may change anything of the engine outside the per-request transient fields
            if stubs.engine_frame(e) != frame0:
                frames_ok = False
        reach()
        return outs[0] == outs[1] and frames_ok
    return h


NO_UID = ("DISCOVER_VERSIONS", "QUERY", "CREATE", "LOCATE")
FIRSTS = ["DISCOVER_VERSIONS", "QUERY", "CREATE", "LOCATE", "GET", "ACTIVATE", "ENCRYPT", "DESTROY"]


def history2(first, probe, v1, v2):
    """Two requests on one engine versus the second request on a fresh engine over the store the
    first request left.  The first request carries symbolic parameters where the operation has any
    (the DiscoverVersions client list, identifier, requester)."""
    v1, v2 = tuple(v1), tuple(v2)

    def h(a0: int, b0: int, a1: int, b1: int, nv: int, uid_sel: int, first_is_owner: bool,
          probe_uid_sel: int, probe_is_owner: bool) -> bool:
        """
        post: _
        """
        if not (0 <= nv <= 2 and 0 <= uid_sel <= 2 and 0 <= probe_uid_sel <= 2):
            return True
        for x in (a0, a1):
            if not (0 <= x <= 2):
                return True
        for x in (b0, b1):
            if not (0 <= x <= 4):
                return True
        if first in NO_UID and (uid_sel or not first_is_owner):
            return True
        if probe in NO_UID and probe_uid_sel:
            return True
        if nv < 2 and (a1 or b1):
            return True
        if nv < 1 and (a0 or b0):
            return True
        if first != "DISCOVER_VERSIONS" and (nv or a0 or b0):
            return True
        uid1 = [None, "1", "3"][uid_sel]
        uid2 = [None, "1", "3"][probe_uid_sel]
        user1 = "alice" if first_is_owner else "carol"
        user2 = "alice" if probe_is_owner else "carol"
        outs = []
        for same_engine in (True, False):
            objs = _store()
            e, s = mk_engine(objs, identity=(None, None), version=(1, 2), crypto=P.RecordingCrypto())
            opts = {}
            if first == "DISCOVER_VERSIONS":
                vs = []
                if nv >= 1:
                    vs.append(contents.ProtocolVersion(a0, b0))
                if nv >= 2:
                    vs.append(contents.ProtocolVersion(a1, b1))
                opts["versions"] = vs
            with NoTracing():
                p1 = P.mk(first, uid1, version=v1, **opts)
                r1 = mk_request([(getattr(OP, first), None, p1)], version=v1)
                p2 = P.mk(probe, uid2, version=v2)
                r2 = mk_request([(getattr(OP, probe), None, p2)], version=v2)
            try:
                e.process_request(r1, [user1, None])
            except Exception:
                pass                           # a refused first request is still a history
            if not same_engine:
                e2, s2 = mk_engine([], identity=(None, None), version=(1, 2), crypto=P.RecordingCrypto())
                e2._data_store_session_factory = s
                e2._data_session = s
                e = e2
            try:
                resp, max_size, pv = e.process_request(r2, [user2, None])
                outs.append((_encode(resp, v2), max_size, str(pv), [snapshot(x) for x in s.objs], len(s.objs)))
            except Exception as ex:
                outs.append((type(ex).__name__, str(ex), [snapshot(x) for x in s.objs], len(s.objs)))
        reach()
        return outs[0] == outs[1]
    return h


def conditions(tier):
    thorough = tier == "thorough"
    out = []
    versions = stubs.VERSIONS if thorough else [(1, 2), (2, 0)]
    for op in PROBES:
        for v in versions:
            if tuple(v) < P.MIN_VERSION.get(op, (1, 0)) and not thorough:
                continue
            out.append(Cond("isolation-%s-%d.%d" % (op, v[0], v[1]), "isolation", dict(op=op, version=list(v)),
                            bounds="probe %s under KMIP %d.%d with identifier absent/existing/unknown, requester owner or "
                                   "not; dirty pre-state: placeholder None or any string len<=2, any of the 6 protocol "
                                   "versions + its attribute policy, identity string len<=1 with a group, async flag"
                                   % (op, v[0], v[1]), timeout=600, part="isolation"))
    pairs = [("DISCOVER_VERSIONS", "QUERY"), ("DISCOVER_VERSIONS", "DISCOVER_VERSIONS"), ("CREATE", "GET"),
             ("QUERY", "GET_ATTRIBUTE_LIST"), ("LOCATE", "GET"), ("ACTIVATE", "GET_ATTRIBUTES"), ("ENCRYPT", "DECRYPT"),
             ("DESTROY", "GET")]
    if thorough:
        pairs = [(f, p) for f in FIRSTS for p in ("GET", "QUERY", "DISCOVER_VERSIONS", "GET_ATTRIBUTE_LIST", "LOCATE",
                                                     "ACTIVATE", "DESTROY")]
    vpairs = [((1, 2), (1, 2)), ((1, 4), (1, 1)), ((2, 0), (1, 3))] if not thorough else \
        [((1, 2), (1, 2)), ((1, 4), (1, 1)), ((2, 0), (1, 3)), ((1, 1), (2, 0)), ((1, 0), (1, 4))]
    for f, p in pairs:
        for v1, v2 in vpairs:
            if tuple(v1) < P.MIN_VERSION.get(f, (1, 0)) or tuple(v2) < P.MIN_VERSION.get(p, (1, 0)):
                continue
            out.append(Cond("history2-%s-%d.%d-then-%s-%d.%d" % (f, v1[0], v1[1], p, v2[0], v2[1]), "history2",
                            dict(first=f, probe=p, v1=list(v1), v2=list(v2)),
                            bounds="request 1: %s under %d.%d (identifier absent/existing/unknown, requester owner or "
                                   "not; DiscoverVersions client list of 0-2 versions with major 0-2, minor 0-4); request "
                                   "2: %s under %d.%d likewise; same engine vs fresh engine over the resulting store"
                                   % (f, v1[0], v1[1], p, v2[0], v2[1]), timeout=900, part="history2"))
    return out
