"""C02 part B - every structure encoding passes the independent TTLV walker (messages, headers, batch
items and a cross-section of payloads in the quick tier; every discovered class in the thorough tier)."""
from kv.rt import Cond
from harness import c01s
from harness.c01s import struct_walk  # noqa: F401  (factory looked up by the worker)

QUICK = ["messages.RequestMessage", "messages.ResponseMessage", "messages.RequestHeader", "messages.ResponseBatchItem",
         "attributes.CryptographicParameters", "objects.KeyBlock", "secrets.SymmetricKey", "objects.TemplateAttribute",
         "encrypt.EncryptRequestPayload", "get.GetRequestPayload", "query.QueryRequestPayload"]


def session_answers(version, resp_n):
    """Every answer the session sends - success, each error class, parse failure, authentication failure,
    oversize replacement - is one well-formed message following the envelope (the C12 loop harness; its
    walker/envelope assertions are this property's subject)."""
    from harness import c12
    return c12.one_response(version, resp_n)


def conditions(tier):
    out = []
    for v in ([(1, 0), (1, 2), (2, 0)] if tier != "thorough" else [(1, 0), (1, 1), (1, 2), (1, 3), (1, 4), (2, 0)]):
        out.append(Cond("session-answers-%d.%d" % v, "session_answers", dict(version=list(v), resp_n=1),
                        bounds="the real session loop: certificate shape, parser outcome, identity, engine outcome, client "
                               "maximum response size symbolic; every byte string handed to sendall is walked",
                        timeout=900, part="session-answers"))
    for c in c01s.conditions(tier):
        if c.factory != "struct_rt":
            continue
        nm = c.kwargs["name"]
        if tier != "thorough" and nm not in QUICK:
            continue
        out.append(Cond(c.name.replace("struct-", "walk-"), "struct_walk", dict(name=nm, versions=c.kwargs["versions"]),
                        bounds=c.bounds, timeout=c.timeout, part="structure-walker"))
    return out
