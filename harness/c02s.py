"""C02 part B - every structure encoding passes the independent TTLV walker (messages, headers, batch
items and a cross-section of payloads in the quick tier; every discovered class in the thorough tier)."""
from kv.rt import Cond
from harness import c01s
from harness.c01s import struct_walk  # noqa: F401  (factory looked up by the worker)

QUICK = ["messages.RequestMessage", "messages.ResponseMessage", "messages.RequestHeader", "messages.ResponseBatchItem",
         "attributes.CryptographicParameters", "objects.KeyBlock", "secrets.SymmetricKey", "objects.TemplateAttribute",
         "encrypt.EncryptRequestPayload", "get.GetRequestPayload", "query.QueryRequestPayload"]


def conditions(tier):
    out = []
    for c in c01s.conditions(tier):
        nm = c.kwargs["name"]
        if tier != "thorough" and nm not in QUICK:
            continue
        out.append(Cond(c.name.replace("struct-", "walk-"), "struct_walk", dict(name=nm, versions=c.kwargs["versions"]),
                        bounds=c.bounds, timeout=c.timeout, part="structure-walker"))
    return out
