"""C19 - the client reports exactly what the server answered.

Real ProxyKmipClient -> real KMIPProxy -> real KMIPProtocol over a FakeSocket.  The scripted answer
is a response message *encoded by the real server-side writers* with symbolic status, reason,
message text (or no message), identifier text and presence of the Operation field, delivered in
chunks; the request the client emitted is captured and decoded by the server-side reader.

1. mapping    per client method: success => returns exactly the carried data; failure => raises the
              operation-failure error carrying exactly (status, reason, message); never data.
2. framing    KMIPProtocol.read/_recv_all under arbitrary chunking and early end of stream.
3. decodable  per client method and version (after a version switch on the same client): the bytes
              sent decode with RequestMessage.read, the header carries the client's current version,
              and the payload fields equal the arguments.
"""
from typing import Optional

from kv import rt
from kv.rt import Cond, reach
from kv import stubs, ttlv_ref as R
from kv.stubs import NoTracing, NullLogger

from kmip.core import attributes, enums, objects as cobjects, primitives, utils
from kmip.core import exceptions as kex
from kmip.core.messages import contents, messages, payloads
from kmip.pie import client as pclient
from kmip.pie import exceptions as pex
from kmip.services import kmip_client, kmip_protocol

OP = enums.Operation
RS = enums.ResultStatus
RR = enums.ResultReason
STATUSES = [RS.SUCCESS, RS.OPERATION_FAILED, RS.OPERATION_UNDONE]
REASONS = list(RR)

kmip_protocol.binascii = type(kmip_protocol.binascii)("binascii_stub")
kmip_protocol.binascii.hexlify = lambda b: b""


class FakeSocket(object):
    def __init__(self, stream=b"", chunks=()):
        self.stream = stream
        self.pos = 0
        self.chunks = list(chunks)
        self.nrecv = 0
        self.sent = []

    def feed(self, data):
        self.stream = self.stream[self.pos:] + data
        self.pos = 0

    def recv(self, n):
        left = len(self.stream) - self.pos
        if left <= 0:
            return b""
        m = n if n < left else left
        if self.nrecv < len(self.chunks):
            c = self.chunks[self.nrecv]
            if c < m:
                m = c
        self.nrecv += 1
        out = self.stream[self.pos:self.pos + m]
        self.pos += m
        return out

    def sendall(self, data):
        self.sent.append(data)

    def close(self):
        pass

    def shutdown(self, how):
        pass


_CLIENT_TEMPLATE = []


def mk_client(version, sock):
    with NoTracing():
        c = pclient.ProxyKmipClient(kmip_version=stubs.KMIP_VERSION[tuple(version)])
        c.logger = NullLogger()
        c.proxy.logger = NullLogger()
        c.proxy.socket = sock
        c.proxy.protocol = kmip_protocol.KMIPProtocol(sock)
        c.proxy.protocol.logger = NullLogger()
        c._is_open = True
    return c


def _encode_response(version, op, status, reason, message, payload):
    v = tuple(version)
    with NoTracing():
        pv = contents.ProtocolVersion(v[0], v[1])
    item = messages.ResponseBatchItem(
        operation=contents.Operation(op) if op is not None else None,
        result_status=contents.ResultStatus(status),
        result_reason=contents.ResultReason(reason) if reason is not None else None,
        result_message=contents.ResultMessage(message) if message is not None else None,
        response_payload=payload)
    hdr = messages.ResponseHeader(protocol_version=pv, time_stamp=contents.TimeStamp(1500000000),
                                  batch_count=contents.BatchCount(1))
    msg = messages.ResponseMessage(response_header=hdr, batch_items=[item])
    st = utils.BytearrayStream()
    msg.write(st, kmip_version=stubs.KMIP_VERSION[v])
    return bytes(st.buffer)


# method -> (operation, call(client, uid), response payload(uid), expected return(uid))
def _methods():
    A = enums.CryptographicAlgorithm
    m = {}
    m["activate"] = (OP.ACTIVATE, lambda c, u: c.activate(u),
                     lambda u: payloads.ActivateResponsePayload(unique_identifier=attributes.UniqueIdentifier(u)),
                     lambda u: None)
    m["destroy"] = (OP.DESTROY, lambda c, u: c.destroy(u),
                    lambda u: payloads.DestroyResponsePayload(unique_identifier=attributes.UniqueIdentifier(u)),
                    lambda u: None)
    m["revoke"] = (OP.REVOKE, lambda c, u: c.revoke(enums.RevocationReasonCode.KEY_COMPROMISE, u, "gone", 5),
                   lambda u: payloads.RevokeResponsePayload(unique_identifier=attributes.UniqueIdentifier(u)),
                   lambda u: None)
    m["create"] = (OP.CREATE, lambda c, u: c.create(A.AES, 256, name="k"),
                   lambda u: payloads.CreateResponsePayload(object_type=enums.ObjectType.SYMMETRIC_KEY,
                                                            unique_identifier=u),
                   lambda u: u)
    m["get_attribute_list"] = (OP.GET_ATTRIBUTE_LIST, lambda c, u: c.get_attribute_list(u),
                               lambda u: payloads.GetAttributeListResponsePayload(
                                   unique_identifier=u, attribute_names=["Object Type", "Name"]),
                               lambda u: ["Name", "Object Type"])
    m["locate"] = (OP.LOCATE, lambda c, u: c.locate(maximum_items=3),
                   lambda u: payloads.LocateResponsePayload(unique_identifiers=[u, "7"]),
                   lambda u: [u, "7"])
    m["mac"] = (OP.MAC, lambda c, u: c.mac(b"data", u, A.HMAC_SHA256),
                lambda u: payloads.MACResponsePayload(unique_identifier=attributes.UniqueIdentifier(u),
                                                      mac_data=cobjects.MACData(b"\x01\x02")),
                lambda u: (u, b"\x01\x02"))
    m["delete_attribute"] = (OP.DELETE_ATTRIBUTE, _call_delete_attribute, _payload_delete_attribute,
                             lambda u: (u, None))
    m["get"] = (OP.GET, lambda c, u: c.get(u).value,
                lambda u: payloads.GetResponsePayload(
                    object_type=enums.ObjectType.SECRET_DATA, unique_identifier=u,
                    secret=_secret_data(b"\x53\x45")),
                lambda u: b"\x53\x45")
    m["derive_key"] = (OP.DERIVE_KEY,
                       lambda c, u: c.derive_key(enums.ObjectType.SYMMETRIC_KEY, [u], enums.DerivationMethod.HMAC,
                                                 {"derivation_data": b"\x01"}, cryptographic_length=128,
                                                 cryptographic_algorithm=A.AES),
                       lambda u: payloads.DeriveKeyResponsePayload(unique_identifier=u),
                       lambda u: u)
    m["encrypt"] = (OP.ENCRYPT, lambda c, u: c.encrypt(b"data", u),
                    lambda u: payloads.EncryptResponsePayload(unique_identifier=u, data=b"\x09\x08",
                                                              iv_counter_nonce=b"\x07"),
                    lambda u: (b"\x09\x08", b"\x07"))
    m["sign"] = (OP.SIGN, lambda c, u: c.sign(b"data", u),
                 lambda u: payloads.SignResponsePayload(unique_identifier=u, signature_data=b"\x05\x06"),
                 lambda u: b"\x05\x06")
    return m


def _call_delete_attribute(c, u):
    if c.kmip_version == enums.KMIPVersion.KMIP_2_0:
        return c.delete_attribute(u, attribute_reference=cobjects.AttributeReference(
            vendor_identification="Acme Corporation", attribute_name="Name"))
    uid, attr = c.delete_attribute(u, attribute_name="Name", attribute_index=0)
    if attr is None or attr.attribute_name.value != "Name":
        return (uid, "attribute not carried over")
    return (uid, None)


def _payload_delete_attribute(u, version=(1, 2)):
    if tuple(version) >= (2, 0):
        return payloads.DeleteAttributeResponsePayload(unique_identifier=u)
    a = cobjects.Attribute(attribute_name=cobjects.Attribute.AttributeName("Name"),
                           attribute_index=cobjects.Attribute.AttributeIndex(0),
                           attribute_value=attributes.Name.create("n", enums.NameType.UNINTERPRETED_TEXT_STRING))
    return payloads.DeleteAttributeResponsePayload(unique_identifier=u, attribute=a)


def _secret_data(v):
    from kmip.core import secrets
    from kmip.pie import factory as pfactory, objects as pobjects
    with NoTracing():
        return pfactory.ObjectFactory().convert(pobjects.SecretData(v, enums.SecretDataType.PASSWORD))


def _mkp(mk_payload, uid, version):
    if mk_payload is _payload_delete_attribute:
        return mk_payload(uid, version)
    return mk_payload(uid)


METHODS = _methods()
QUICK_METHODS = ["activate", "destroy", "create", "locate", "mac", "delete_attribute", "get_attribute_list"]


QUICK_REASONS = [RR.ITEM_NOT_FOUND, RR.GENERAL_FAILURE, RR.PERMISSION_DENIED, RR.AUTHENTICATION_NOT_SUCCESSFUL,
                 RR.INVALID_MESSAGE, REASONS[-1]]


def mapping(method, version, all_reasons=False):
    version = tuple(version)
    op, call, mk_payload, expect = METHODS[method]
    REASONS = list(RR) if all_reasons else QUICK_REASONS

    def h(si: int, ri: int, has_msg: bool, msg: str, has_op: bool, uid: str, chunk: int) -> bool:
        """
        post: _
        """
        if not (0 <= si < len(STATUSES) and 0 <= ri < len(REASONS)) or len(msg) > 1 or len(uid) != 1:
            return True
        for ch in msg + uid:
            if not (32 <= ord(ch) <= 126):
                return True
        if chunk != 3:
            return True                      # chunking is the framing conditions' subject
        if method in ("delete_attribute",) and msg not in ("", "m"):
            return True                      # this route formats the message into the exception text (realises it)
        status = None
        for k in range(len(STATUSES)):
            if si == k:
                status = STATUSES[k]
        ok = status == RS.SUCCESS
        reason = None
        if not ok:
            for k in range(len(REASONS)):
                if ri == k:
                    reason = REASONS[k]
        elif ri or has_msg or len(msg) or not has_op:
            return True                      # a success carries no reason/message and names its operation
        message = msg if (has_msg and not ok) else None
        if not has_msg and len(msg):
            return True
        sock = FakeSocket(chunks=[chunk, chunk, chunk])
        c = mk_client(version, sock)
        payload = _mkp(mk_payload, uid, version) if ok else None
        sock.feed(_encode_response(version, op if has_op else None, status, reason, message, payload))
        try:
            got = call(c, uid)
        except pex.KmipOperationFailure as e:
            reach()
            return (not ok) and e.status == status and e.reason == reason and e.message == message
        except kex.OperationFailure as e:
            reach()
            return (not ok) and e.status == status and e.reason == reason and str(e) == (message if message is not None else str(e))
        reach()
        if not ok:
            return False                     # data returned for a failed operation
        return got == expect(uid)
    return h


def client_framing(L, k=3):
    header = bytes([0x42, 0x00, 0x7B, 0x01]) + bytes(R.be(L, 4))
    top = 8 + L + 2

    def h(data: bytes, c0: int, c1: int, c2: int, c3: int, cut_header: int) -> bool:
        """
        post: _
        """
        if len(data) > L + 2 or not (0 <= cut_header <= 8):
            return True
        cs = [c0, c1, c2, c3]
        for i, c in enumerate(cs):
            if not (1 <= c <= top):
                return True
            if i >= k and c != top:
                return True
        if cut_header < 8 and len(data):
            return True
        stream = header[:cut_header] + data if cut_header < 8 else header + data
        sock = FakeSocket(stream, cs[:k])
        p = kmip_protocol.KMIPProtocol(sock)
        p.logger = NullLogger()
        try:
            got = p.read()
        except EOFError:
            reach()
            return len(stream) == 0
        except kmip_protocol.RequestLengthMismatch:
            reach()
            return 0 < len(stream) < 8 + L
        reach()
        if len(stream) < 8 + L:
            return False
        return bytes(got.buffer) == header + data[:L] and sock.pos == 8 + L
    return h


def _decode_request(buf):
    req = messages.RequestMessage()
    req.read(utils.BytearrayStream(buf), kmip_version=enums.KMIPVersion.KMIP_1_2)    # as the session does
    return req


def decodable(method, v0, v1):
    v0, v1 = tuple(v0), tuple(v1)
    op, call, mk_payload, expect = METHODS[method]

    def h(uid: str, uid0: str) -> bool:
        """
        post: _
        """
        if not (1 <= len(uid) <= 2 and len(uid0) == 1):
            return True
        for ch in uid + uid0:
            if not (32 <= ord(ch) <= 126):
                return True
        sock = FakeSocket()
        c = mk_client(v0, sock)
        sock.feed(_encode_response(v0, op, RS.SUCCESS, None, None, _mkp(mk_payload, uid0, v0)))
        call(c, uid0)
        c.kmip_version = stubs.KMIP_VERSION[v1]          # e.g. after version negotiation
        sock.feed(_encode_response(v1, op, RS.SUCCESS, None, None, _mkp(mk_payload, uid, v1)))
        call(c, uid)
        reach()
        if len(sock.sent) != 2:
            return False
        for buf, v, u in ((bytes(sock.sent[0]), v0, uid0), (bytes(sock.sent[1]), v1, uid)):
            try:
                R.well_formed_message(buf)
            except R.Malformed:
                return False
            req = _decode_request(buf)
            pv = req.request_header.protocol_version
            if (pv.major, pv.minor) != v:
                return False
            if len(req.batch_items) != 1 or req.batch_items[0].operation.value != op:
                return False
            pl = req.batch_items[0].request_payload
            if method in ("activate", "destroy", "revoke", "mac"):
                got = pl.unique_identifier.value if pl.unique_identifier is not None else None
                if got != u:
                    return False
            elif method in ("get_attribute_list", "delete_attribute", "get", "encrypt", "sign"):
                if pl.unique_identifier != u:
                    return False
            elif method == "derive_key":
                if list(pl.unique_identifiers) != [u]:
                    return False
            elif method == "locate":
                if pl.maximum_items != 3:
                    return False
            elif method == "create":
                if pl.object_type != enums.ObjectType.SYMMETRIC_KEY:
                    return False
        return True
    return h


def conditions(tier):
    thorough = tier == "thorough"
    out = []
    methods = sorted(METHODS) if thorough else QUICK_METHODS
    versions = stubs.VERSIONS if thorough else [(1, 2), (2, 0)]
    for m in methods:
        for v in versions:
            out.append(Cond("mapping-%s-%d.%d" % (m, v[0], v[1]), "mapping",
                            dict(method=m, version=list(v), all_reasons=thorough),
                            bounds=("response to %s under KMIP %d.%d: status SUCCESS / OPERATION_FAILED / "
                                    "OPERATION_UNDONE; " % (m, v[0], v[1]))
                            + ("any ResultReason; " if thorough else "6 representative ResultReasons; ")
                            + "message absent or printable text len<=1; Operation field present or not (failures); "
                              "identifier one printable character; response delivered in 3-byte chunks",
                            timeout=900, part="mapping"))
    plan = [(0, 3), (1, 3), (5, 3), (8, 3), (16, 2)] if not thorough else [(0, 4), (1, 4), (5, 4), (8, 3), (16, 3), (40, 2)]
    for L, k in plan:
        out.append(Cond("client-framing-len%d" % L, "client_framing", dict(L=L, k=k),
                        bounds="advertised length %d; stream = header (or any prefix of it) + up to %d arbitrary bytes; "
                               "%d arbitrary chunk sizes" % (L, L + 2, k), timeout=1800 if thorough else 300,
                        part="framing"))
    vpairs = [((1, 2), (2, 0)), ((2, 0), (1, 4)), ((1, 0), (1, 3))] if not thorough else \
        [(a, b) for a in stubs.VERSIONS for b in stubs.VERSIONS]
    for m in methods:
        for v0, v1 in vpairs:
            out.append(Cond("decodable-%s-%d.%d-to-%d.%d" % (m, v0[0], v0[1], v1[0], v1[1]), "decodable",
                            dict(method=m, v0=list(v0), v1=list(v1)),
                            bounds="%s sent under KMIP %d.%d, client switched to %d.%d, sent again; identifier printable "
                                   "text len 1-2" % (m, v0[0], v0[1], v1[0], v1[1]), timeout=600, part="decodable"))
    return out
