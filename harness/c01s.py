"""C01 family 3 / C02 part B / C16 part 5 - structures: round trip, well-formed TTLV, version gates.

For every structure class whose input shape kv/structs.py can determine from /repo's current tree
(plus the hand-written builders for messages, key blocks, templates ...): the presence of each
optional field, every integer / text / bytes / boolean leaf, the enumeration leaves (3
representatives each) and the KMIP version are symbolic.  Oracles:

  * the real writer accepts every constructible value (documented refusals: InvalidField for a
    missing mandatory field, VersionNotSupported for a class the version does not define);
  * the bytes pass the independent TTLV walker (C02 part B);
  * decoding under the same version and re-encoding reproduces the bytes; where the class defines
    equality the decoded value equals the original - except for fields of the hand table GATED,
    which a version older than their introduction must drop, and whose tags must then be absent
    from the encoding (C16 part 5).
"""
from kv import rt
from kv.rt import Cond, reach
from kv import structs as S, ttlv_ref as R

from kmip.core import enums
from kmip.core import exceptions as kex

T = enums.Tags
V = enums.KMIPVersion
# (class, keyword) -> (KMIP version that introduced the field, its tag); transcribed from the KMIP 1.1-2.0
# specifications' message/attribute tables.  Only fields PyKMIP actually gates need to be listed: an
# ungated field simply round-trips.
GATED = {
    ("encrypt.EncryptRequestPayload", "auth_additional_data"): (V.KMIP_1_4, T.AUTHENTICATED_ENCRYPTION_ADDITIONAL_DATA),
    ("encrypt.EncryptResponsePayload", "auth_tag"): (V.KMIP_1_4, T.AUTHENTICATED_ENCRYPTION_TAG),
    ("decrypt.DecryptRequestPayload", "auth_additional_data"): (V.KMIP_1_4, T.AUTHENTICATED_ENCRYPTION_ADDITIONAL_DATA),
    ("decrypt.DecryptRequestPayload", "auth_tag"): (V.KMIP_1_4, T.AUTHENTICATED_ENCRYPTION_TAG),
    ("messages.RequestBatchItem", "ephemeral"): (V.KMIP_2_0, T.EPHEMERAL),
    ("delete_attribute.DeleteAttributeRequestPayload", "current_attribute"): (V.KMIP_2_0, T.CURRENT_ATTRIBUTE),
    ("delete_attribute.DeleteAttributeRequestPayload", "attribute_reference"): (V.KMIP_2_0, T.ATTRIBUTE_REFERENCE),
    ("modify_attribute.ModifyAttributeRequestPayload", "current_attribute"): (V.KMIP_2_0, T.CURRENT_ATTRIBUTE),
    ("modify_attribute.ModifyAttributeRequestPayload", "new_attribute"): (V.KMIP_2_0, T.NEW_ATTRIBUTE),
    ("create.CreateRequestPayload", "protection_storage_masks"): (V.KMIP_2_0, T.PROTECTION_STORAGE_MASKS),
    ("register.RegisterRequestPayload", "protection_storage_masks"): (V.KMIP_2_0, T.PROTECTION_STORAGE_MASKS),
}
# Not listed (PyKMIP does not gate them, so they simply round-trip under every version; noted in DESIGN.md as
# an observation outside the claim): Locate's Offset Items / Located Items (KMIP 1.3).
# KMIP 2.0 replaced Template-Attribute structures and attribute names by Attributes / attribute references:
# under 2.0 these classes convert their content, and the 1.x-only fields are dropped; value equality is
# therefore only demanded below 2.0 for them (encode / walk / decode / re-encode is demanded everywhere).
CONVERTED_IN_2_0 = ("create.", "register.", "derive_key.", "create_key_pair.", "rekey.", "rekey_key_pair.", "locate.",
                    "get_attributes.", "get_attribute_list.", "delete_attribute.", "modify_attribute.", "query.",
                    "objects.TemplateAttribute", "objects.CommonTemplateAttribute", "objects.PrivateKeyTemplateAttribute",
                    "objects.PublicKeyTemplateAttribute", "objects.Attribute")
# The Query response's optional sections are gated by version in ways the hand table GATED does not list (profile,
# validation and capability information 1.3, defaults and protection storage masks 2.0 ...): value equality is not
# demanded for it (encode / walk / decode / re-encode is).
EQ_NOT_DEMANDED = ("query.QueryResponsePayload",)
ORDER = [V.KMIP_1_0, V.KMIP_1_1, V.KMIP_1_2, V.KMIP_1_3, V.KMIP_1_4, V.KMIP_2_0]


def _older(v, w):
    return ORDER.index(v) < ORDER.index(w)


def struct_rt(name, versions=None, pairs=True, walker=True):
    cls = S._resolve_any(name)
    spec = S.discover(cls)
    manual = isinstance(spec, S.ManualSpec)
    n = spec.nbits if manual else len(spec.fields)
    vers = [ORDER[i] for i in versions] if versions is not None else list(ORDER)
    wide = n > 4
    has_eq = "__eq__" in cls.__dict__

    def h(mask: int, a: int, b: int, inverse: bool, i0: int, i1: int, i2: int, i3: int, i4: int, i5: int,
          t0: str, t1: str, b0: bytes, b1: bytes, f0: bool, f1: bool, f2: bool,
          e0: int, e1: int, e2: int, e3: int, vi: int) -> bool:
        """
        post: _
        """
        if not (0 <= vi < len(vers)):
            return True
        for x in (i0, i1, i2, i3, i4, i5):
            if not (0 <= x < 2 ** 31):
                return True
        for x in (e0, e1, e2, e3):
            if not (0 <= x <= 2):
                return True
        if len(t0) != 1 or len(t1) != 1 or len(b0) != 1 or len(b1) != 2:
            return True                       # lengths are the primitive conditions' subject; contents symbolic
        for ch in t0 + t1:
            if ord(ch) > 127:
                return True
        if wide:
            # all present except up to two, or none present except up to two
            if mask or not (0 <= a <= n and 0 <= b <= n):
                return True
            present = [(i == a or i == b) == inverse for i in range(n)]
        else:
            if not (0 <= mask < 2 ** n) or a or b or inverse:
                return True
            present = []
            m = mask
            for i in range(n):
                present.append(m % 2 == 1)
                m = m // 2
        v = None
        for k in range(len(vers)):
            if vi == k:
                v = vers[k]
        S.CURRENT[0], S.CURRENT[1] = S.PV[v]
        if e1 != e0 or e2 != e0 or e3 != e0 or f2 != f1:
            return True                       # one enumeration selector and two booleans vary
        if not pairs and (b != a or i2 or i3 or i4 or i5):
            return True                       # quick tier: one exceptional field, two symbolic integers
        pool = S.Pool(ints=[i0, i1, i2, i3, i4, i5] if pairs else [i0, i1], strs=[t0, t1], bytess=[b0, b1],
                      bools=[f0, f1, f2], enums_=[e0, e1, e2, e3])
        try:
            x = S.build(spec, pool, present)
        except (TypeError, ValueError):
            return True                       # not a constructible value
        try:
            buf = S.enc(x, v)
        except (kex.InvalidField, kex.VersionNotSupported, ValueError):
            return True                       # documented refusal (mandatory field absent, value not encodable under
            #                                   this version, class not in this version)
        if walker:
            try:
                R.walk(buf)
            except R.Malformed:
                return False
        if len(buf) % 8 != 0:
            return False
        y = S.dec(cls, buf, v, x)
        reach()
        if S.enc(y, v) != buf:
            return False
        # version gates
        gated_present = False
        if not manual:
            tags = None
            for i, (kw, kind) in enumerate(spec.fields):
                g = GATED.get((name, kw))
                if g is not None and present[i] and _older(v, g[0]):
                    gated_present = True
                    if tags is None:
                        tags = R.tags_in(R.walk(buf))
                    if g[1].value in tags:
                        return False           # a field of a later version was sent to an older client
        else:
            g = GATED.get((name, "ephemeral"))
            if g is not None and name == "messages.RequestBatchItem" and present[1] and _older(v, g[0]):
                gated_present = True
                if g[1].value in R.tags_in(R.walk(buf)):
                    return False
        if has_eq and not gated_present and name not in EQ_NOT_DEMANDED \
                and not (v == V.KMIP_2_0 and name.startswith(CONVERTED_IN_2_0)):
            if not (y == x):
                return False
        return True
    return h


QUICK = ["attributes.CryptographicParameters", "attributes.ApplicationSpecificInformation", "attributes.DerivationParameters",
         "attributes.Name", "objects.Attribute", "objects.TemplateAttribute", "objects.KeyBlock", "objects.KeyWrappingData",
         "objects.KeyWrappingSpecification", "objects.EncryptionKeyInformation", "objects.RevocationReason",
         "secrets.SymmetricKey", "secrets.SecretData", "contents.ProtocolVersion",
         "messages.RequestHeader", "messages.ResponseHeader", "messages.RequestBatchItem", "messages.ResponseBatchItem",
         "messages.RequestMessage", "messages.ResponseMessage",
         "create.CreateResponsePayload", "get.GetRequestPayload",
         "activate.ActivateRequestPayload", "revoke.RevokeRequestPayload",
         "locate.LocateResponsePayload", "get_attributes.GetAttributesRequestPayload",
         "get_attribute_list.GetAttributeListResponsePayload", "encrypt.EncryptRequestPayload",
         "encrypt.EncryptResponsePayload", "decrypt.DecryptRequestPayload", "sign.SignRequestPayload",
         "signature_verify.SignatureVerifyRequestPayload", "mac.MACRequestPayload", "derive_key.DeriveKeyRequestPayload",
         "query.QueryRequestPayload", "discover_versions.DiscoverVersionsRequestPayload",
         "delete_attribute.DeleteAttributeRequestPayload", "modify_attribute.ModifyAttributeRequestPayload",
         "set_attribute.SetAttributeRequestPayload", "create_key_pair.CreateKeyPairRequestPayload"]


def name_tag_table():
    """KMIP 2.0 encodes attribute names as tags: the name <-> tag table must be a bijection whose tag is the
    one the specification's tag registry gives that name (the registry's identifier is the name in upper
    case with '_' for space and '.', '#' dropped)."""
    entries = list(enums.attribute_name_tag_table)

    def h(i: int) -> bool:
        """
        post: _
        """
        if not (0 <= i < len(entries)):
            return True
        name = tag = None
        for k in range(len(entries)):
            if i == k:
                name, tag = entries[k]
        reach()
        want = name.upper().replace(" ", "_").replace(".", "_").replace("#", "")
        if tag.name != want:
            return False
        if enums.convert_attribute_name_to_tag(name) is not tag:
            return False
        if enums.convert_attribute_tag_to_name(tag) != name:
            return False
        # no other entry claims the same tag or the same name
        for k in range(len(entries)):
            if k != i and (entries[k][0] == name or entries[k][1] is tag):
                return False
        return True
    return h


def fresh_decodes():
    """Decoding is a function of the bytes alone: decoding the same key block again (after another value
    was decoded in between) gives an object that re-encodes to the same bytes."""
    from kmip.core import objects as cobjects, attributes as cattrs
    from kmip.core.factories import attributes as af

    def h(n_attrs: int, text: str, value: bytes) -> bool:
        """
        post: _
        """
        if not (0 <= n_attrs <= 2) or len(text) != 1 or ord(text) > 127 or len(value) != 2:
            return True
        F = af.AttributeFactory()
        attrs = []
        if n_attrs >= 1:
            attrs.append(F.create_attribute(enums.AttributeType.OBJECT_GROUP, text))
        if n_attrs >= 2:
            attrs.append(F.create_attribute(enums.AttributeType.CRYPTOGRAPHIC_LENGTH, 128))

        def mk(v, a):
            return cobjects.KeyBlock(
                key_format_type=cobjects.KeyFormatType(enums.KeyFormatType.RAW),
                key_value=cobjects.KeyValue(key_material=cobjects.KeyMaterial(v), attributes=a) if a is not None
                else cobjects.KeyValue(key_material=cobjects.KeyMaterial(v)),
                cryptographic_algorithm=cattrs.CryptographicAlgorithm(enums.CryptographicAlgorithm.AES),
                cryptographic_length=cattrs.CryptographicLength(128))
        v = V.KMIP_1_2
        b1 = S.enc(mk(value, attrs), v)
        b2 = S.enc(mk(b"\x09\x09", None), v)
        x1 = S.dec(cobjects.KeyBlock, b1, v)
        y = S.dec(cobjects.KeyBlock, b2, v)
        x2 = S.dec(cobjects.KeyBlock, b1, v)
        reach()
        return S.enc(x1, v) == b1 and S.enc(y, v) == b2 and S.enc(x2, v) == b1
    return h


def struct_walk(name, versions=None):
    """C02 part B: the same executions with the independent walker as the oracle of interest."""
    return struct_rt(name, versions, pairs=False, walker=True)


def struct_gates(name, versions=None):
    """C16 part 5: the classes that carry version-gated fields."""
    return struct_rt(name, versions, pairs=False, walker=False)


def undiscovered():
    S.load_or_discover()
    return sorted(S.qual(c) for c in S.all_classes() if S._CACHE.get(c) is None)


def conditions(tier):
    thorough = tier == "thorough"
    S.load_or_discover()
    out = []
    out.append(Cond("name-tag-table", "name_tag_table", {},
                    bounds="every entry of enums.attribute_name_tag_table", timeout=300, part="tables"))
    out.append(Cond("fresh-decodes-KeyBlock", "fresh_decodes", {},
                    bounds="a key block whose key value carries 0-2 attributes, decoded, another key block decoded, the "
                           "first decoded again", timeout=300, part="structure"))
    names = sorted(S.qual(c) for c in S.all_classes() if S._CACHE.get(c) is not None)
    chosen = names if thorough else [n for n in QUICK if n in names]
    for name in chosen:
        sp = S._CACHE[S._resolve_any(name)]
        manual = isinstance(sp, S.ManualSpec)
        n = sp.nbits if manual else len(sp.fields)
        heavy = n > 3 or name.startswith("messages.")
        vsel = list(range(6)) if thorough else [2, 4, 5]
        slices = [[i] for i in vsel] if heavy else [vsel]
        for sl in slices:
            tag = "" if len(sl) > 1 else "-v%d" % sl[0]
            out.append(Cond("struct-%s%s" % (name, tag), "struct_rt",
                            dict(name=name, versions=sl, pairs=thorough, walker=thorough),
                            bounds="%s; presence of its %d optional parts %s; int leaves in [0,2^31), ASCII text len 1, "
                                   "bytes len 1-2, booleans, 3 members per enumeration; KMIP version %s; fields the shape "
                                   "discovery could not populate: %s"
                                   % (S.describe(sp), n, "all 2^n combinations" if n <= 4 else
                                      ("all-but-two / at-most-two present" if thorough else "all-but-one / at-most-one present"), "/".join(ORDER[i].name for i in sl), sp.missing or "none"),
                            timeout=1200 if thorough else 600, part="structure"))
    return out
