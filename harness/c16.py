"""C16 - protocol version honoured: echo, refusal, feature gating (DESIGN.md section 2, C16)."""
from kv import rt
from kv.rt import Cond, reach
from kv import stubs, payloads as P
from kv.stubs import mk_engine, mk_obj, NoTracing
from harness.c08 import mk_request, mk_rich

from kmip.core import enums, utils
from kmip.core import exceptions as kex
from kmip.core.messages import contents, messages
from kmip.services.server import policy as spolicy

OP = enums.Operation
ST = enums.State
SUPPORTED = [(1, 0), (1, 1), (1, 2), (1, 3), (1, 4), (2, 0)]

# Independent tables (KMIP specifications): version in which each operation the server implements
# was introduced, and in which each attribute was added / deprecated.
OP_INTRODUCED = {
    "CREATE": (1, 0), "CREATE_KEY_PAIR": (1, 0), "REGISTER": (1, 0), "DERIVE_KEY": (1, 0), "LOCATE": (1, 0),
    "GET": (1, 0), "GET_ATTRIBUTES": (1, 0), "GET_ATTRIBUTE_LIST": (1, 0), "ACTIVATE": (1, 0), "REVOKE": (1, 0),
    "DESTROY": (1, 0), "QUERY": (1, 0), "DELETE_ATTRIBUTE": (1, 0), "MODIFY_ATTRIBUTE": (1, 0),
    "DISCOVER_VERSIONS": (1, 1),
    "ENCRYPT": (1, 2), "DECRYPT": (1, 2), "SIGN": (1, 2), "SIGNATURE_VERIFY": (1, 2), "MAC": (1, 2),
    "SET_ATTRIBUTE": (2, 0),
}
ATTR_ADDED = {
    "Certificate Length": (1, 1), "X.509 Certificate Identifier": (1, 1), "X.509 Certificate Subject": (1, 1),
    "X.509 Certificate Issuer": (1, 1), "Digital Signature Algorithm": (1, 1), "Fresh": (1, 1),
    "Sensitive": (1, 4),
}
ATTR_DEPRECATED = {
    "Certificate Identifier": (1, 1), "Certificate Subject": (1, 1), "Certificate Issuer": (1, 1),
    "Operation Policy Name": (2, 0),
}


def accept(pin):
    """major/minor arbitrary ints (pin None) or pinned to a 32-bit boundary pair."""
    def h(major: int, minor: int, wrong_major: bool) -> bool:
        """
        post: _
        """
        if pin is not None and (major != pin[0] or minor != pin[1]):
            return True
        try:
            pv = contents.ProtocolVersion(major, minor)
        except (TypeError, ValueError):
            return True                      # not a constructible protocol version
        e, s = mk_engine([], version=(1, 2))
        with NoTracing():
            payload = P.mk("QUERY")
        req = mk_request([(OP.QUERY, None, payload)], version=(1, 2))
        req.request_header.protocol_version = pv
        supported = False
        for (a, b) in SUPPORTED:
            if major == a and minor == b:
                supported = True
        try:
            resp, _, echoed = e.process_request(req, ["alice", None])
        except kex.InvalidMessage:
            reach()
            return not supported
        reach()
        if not supported:
            return False
        h_ = resp.response_header.protocol_version
        if not (h_.major == major and h_.minor == minor and echoed.major == major and echoed.minor == minor):
            return False
        ap = e._attribute_policy._version
        return ap.major == major and ap.minor == minor and e._protocol_version.major == major
    return h


def gating(version):
    """Every Operation member under one version: refused as not-supported iff the version
    predates the operation (or the server does not implement it)."""
    version = tuple(version)
    ops = list(OP)

    def h(oi: int) -> bool:
        """
        post: _
        """
        if not (0 <= oi < len(ops)):
            return True
        op = ops[oi]
        M = enums.CryptographicUsageMask
        o = mk_obj("SymmetricKey", uid=1, state=ST.ACTIVE, masks=list(M), names=["name1"])
        e, s = mk_engine([o], version=version, crypto=P.RecordingCrypto())
        intro = OP_INTRODUCED.get(op.name)
        try:
            with NoTracing():
                payload = P.mk(op.name, "1", version=version) if intro else None
        except Exception:
            return True
        want_unsupported = intro is None or version < intro
        try:
            e._process_operation(op, payload)
        except kex.OperationNotSupported:
            reach()
            return want_unsupported
        except kex.KmipError:
            reach()
            return not want_unsupported       # available, failed for a reason of its own
        reach()
        return not want_unsupported
    return h


def query_consistent(version):
    version = tuple(version)

    def h(fsel: int) -> bool:
        """
        post: _
        """
        fns = list(enums.QueryFunction)
        if not (0 <= fsel <= len(fns)):
            return True
        sel = fns if fsel == len(fns) else [fns[fsel]]
        e, s = mk_engine([], version=version)
        resp = e._process_operation(OP.QUERY, P.mk("QUERY", functions=sel))
        reach()
        advertised = [x for x in (resp.operations or [])]
        for op in advertised:
            op = op.value if hasattr(op, "value") and not isinstance(op, OP) else op
            intro = OP_INTRODUCED.get(op.name)
            if intro is None or version < intro:
                return False
        if enums.QueryFunction.QUERY_OPERATIONS in sel:
            # everything available under this version is advertised, except attribute operations
            # the server chooses not to list
            names = {(x.value if not isinstance(x, OP) else x).name for x in advertised}
            for name, intro in OP_INTRODUCED.items():
                if intro <= version and name in ("CREATE", "GET", "LOCATE", "DESTROY", "QUERY") and name not in names:
                    return False
        return True
    return h


def discover(n):
    def h(a0: int, b0: int, a1: int, b1: int, a2: int, b2: int, sv: int) -> bool:
        """
        post: _
        """
        pairs = [(a0, b0), (a1, b1), (a2, b2)][:n]
        for (a, b) in pairs:
            if not (-1 <= a <= 3 and -1 <= b <= 5):
                return True
        if n < 3 and (a2 or b2):
            return True
        if n < 2 and (a1 or b1):
            return True
        if not (1 <= sv < len(SUPPORTED)):
            return True                       # DiscoverVersions exists from 1.1 on
        e, s = mk_engine([], version=SUPPORTED[sv])
        vs = [contents.ProtocolVersion(a, b) for (a, b) in pairs]
        resp = e._process_operation(OP.DISCOVER_VERSIONS, P.mk("DISCOVER_VERSIONS", versions=vs))
        reach()
        got = [(v.major, v.minor) for v in resp.protocol_versions]
        for g in got:
            if g not in SUPPORTED:
                return False
            if n > 0 and g not in pairs:
                return False
        for x, y in zip(got, got[1:]):
            if not (x > y):
                return False                   # newest first, no duplicates
        want = set(SUPPORTED) if n == 0 else {p for p in pairs if p in SUPPORTED}
        return set(got) == want
    return h


def attributes_by_version(kind):
    """Attribute names reported by GetAttributeList / GetAttributes(all) under each version are a
    subset of those added and not deprecated in that version."""
    def h(vi: int, explicit: bool) -> bool:
        """
        post: _
        """
        if not (0 <= vi < len(SUPPORTED)):
            return True
        version = SUPPORTED[vi]
        with NoTracing():
            o = mk_rich(kind, 1, 1, 1, state=ST.ACTIVE)
            o.sensitive = True
        e, s = mk_engine([o], version=version)
        if explicit:
            with NoTracing():
                allnames = list(spolicy.AttributePolicy(contents.ProtocolVersion(2, 0))._attribute_rule_sets.keys())
            resp = e._process_operation(OP.GET_ATTRIBUTES, P.mk("GET_ATTRIBUTES", "1", names=allnames + ["x-custom"]))
            names = [a.attribute_name.value for a in resp.attributes]
        else:
            resp = e._process_operation(OP.GET_ATTRIBUTE_LIST, P.mk("GET_ATTRIBUTE_LIST", "1"))
            names = list(resp.attribute_names)
        reach()
        for nme in names:
            if ATTR_ADDED.get(nme, (1, 0)) > version:
                return False
            dep = ATTR_DEPRECATED.get(nme)
            if dep is not None and version >= dep:
                return False
        if "Unique Identifier" not in names or "Object Type" not in names:
            return False
        if version >= (1, 4) and "Sensitive" not in names:
            return False
        return True
    return h


def policy_table():
    """AttributePolicy.is_attribute_supported / is_attribute_deprecated against the independent table."""
    def h(vi: int, ni: int) -> bool:
        """
        post: _
        """
        with NoTracing():
            names = list(spolicy.AttributePolicy(contents.ProtocolVersion(2, 0))._attribute_rule_sets.keys()) + ["x-custom"]
        if not (0 <= vi < len(SUPPORTED) and 0 <= ni < len(names)):
            return True
        version, name = SUPPORTED[vi], names[ni]
        with NoTracing():
            pol = spolicy.AttributePolicy(contents.ProtocolVersion(*version))
        sup = pol.is_attribute_supported(name)
        dep = pol.is_attribute_deprecated(name)
        reach()
        if name == "x-custom":
            return sup is False and dep is False
        want_sup = ATTR_ADDED.get(name, (1, 0)) <= version
        want_dep = name in ATTR_DEPRECATED and version >= ATTR_DEPRECATED[name]
        return bool(sup) == want_sup and bool(dep) == want_dep
    return h


def session_echo(vi):
    """The response is encoded with, and carries, the version of the request (engine + codec)."""
    version = SUPPORTED[vi]

    def h(opsel: int) -> bool:
        """
        post: _
        """
        ops = ["QUERY", "GET", "LOCATE", "CREATE"]
        if not (0 <= opsel < len(ops)):
            return True
        o = mk_obj("SymmetricKey", uid=1, state=ST.ACTIVE, masks=[], names=["n"])
        e, s = mk_engine([o], version=(1, 2), crypto=P.RecordingCrypto())
        with NoTracing():
            req = mk_request([(getattr(OP, ops[opsel]), None, P.mk(ops[opsel], "1", version=version))], version=version)
        resp, _, pv = e.process_request(req, ["alice", None])
        st = utils.BytearrayStream()
        resp.write(st, kmip_version=contents.protocol_version_to_kmip_version(pv))
        back = messages.ResponseMessage()
        back.read(utils.BytearrayStream(st.buffer), kmip_version=stubs.KMIP_VERSION[version])
        reach()
        hv = back.response_header.protocol_version
        return (hv.major, hv.minor) == version and (pv.major, pv.minor) == version
    return h


def conditions(tier):
    thorough = tier == "thorough"
    out = []
    out.append(Cond("accept-any", "accept", dict(pin=None),
                    bounds="major, minor: any ints the ProtocolVersion constructor accepts (32-bit signed)",
                    timeout=600, part="acceptance"))
    for pin in ([2 ** 31 - 1, 0], [-2 ** 31, 0], [1, 2 ** 31 - 1], [2, -1], [0, 0]):
        out.append(Cond("accept-pinned-%d-%d" % (pin[0], pin[1]), "accept", dict(pin=pin),
                        bounds="pinned boundary version %r" % (pin,), timeout=120, part="acceptance"))
    for v in SUPPORTED:
        out.append(Cond("gating-%d.%d" % v, "gating", dict(version=list(v)),
                        bounds="every member of enums.Operation under KMIP %d.%d" % v, timeout=600, part="gating"))
        out.append(Cond("query-%d.%d" % v, "query_consistent", dict(version=list(v)),
                        bounds="Query with each single function and with all functions under KMIP %d.%d" % v,
                        timeout=300, part="query"))
    for n in (0, 1, 2) + ((3,) if thorough else ()):
        out.append(Cond("discover-n%d" % n, "discover", dict(n=n),
                        bounds="DiscoverVersions with %d client versions, major in [-1,3], minor in [-1,5] symbolic, under "
                               "each server-side version >= 1.1" % n, timeout=1200 if n == 3 else 600, part="discover"))
    for k in (stubs.KINDS if thorough else ["SymmetricKey", "X509Certificate", "OpaqueObject"]):
        out.append(Cond("attributes-%s" % k, "attributes_by_version", dict(kind=k),
                        bounds="GetAttributeList and GetAttributes(all table names + 1 unknown) on a %s under each of "
                               "the 6 versions" % k, timeout=600, part="attributes"))
    out.append(Cond("policy-table", "policy_table", {},
                    bounds="every rule-table attribute name + 1 unknown x 6 versions", timeout=600, part="attributes"))
    for vi in range(len(SUPPORTED)):
        out.append(Cond("echo-%d.%d" % SUPPORTED[vi], "session_echo", dict(vi=vi),
                        bounds="Query/Get/Locate/Create request under KMIP %d.%d: response header and encoding version"
                               % SUPPORTED[vi], timeout=300, part="echo"))
    return out
