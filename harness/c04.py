"""C04 - lifecycle monotone; state and usage mask gate every cryptographic use.

One symbolic step from an arbitrary stored state per handler (DESIGN.md section 2, C04):
the stored object's state, the relevant usage-mask bit, the remaining bits, the revocation
code and the addressing route are symbolic; the oracle is a reference successor relation
and a reference gate written from the statement.
"""
from kv import rt
from kv.rt import Cond, reach
from kv import stubs, payloads as P
from kv.stubs import mk_engine, mk_obj, snapshot, NoTracing

from kmip.core import enums
from kmip.core import exceptions as kex

OP = enums.Operation
ST = enums.State
M = enums.CryptographicUsageMask
STATES = [ST.PRE_ACTIVE, ST.ACTIVE, ST.DEACTIVATED, ST.COMPROMISED]   # the states a stored object can have
RANK = {ST.PRE_ACTIVE: 0, ST.ACTIVE: 1, ST.DEACTIVATED: 2, ST.COMPROMISED: 3}
CODES = list(enums.RevocationReasonCode)
COMPROMISE = (enums.RevocationReasonCode.KEY_COMPROMISE, enums.RevocationReasonCode.CA_COMPROMISE)

GATE = {   # operation -> (required kind or None, required bit)
    "ENCRYPT": ("SymmetricKey", M.ENCRYPT), "DECRYPT": ("SymmetricKey", M.DECRYPT),
    "SIGN": ("PrivateKey", M.SIGN), "SIGNATURE_VERIFY": ("PublicKey", M.VERIFY),
    "MAC": (None, M.MAC_GENERATE),
}


def allowed_step(op, pre, post, code):
    """Reference successor relation for a surviving object."""
    if post == pre:
        return True
    if op == "ACTIVATE":
        return pre == ST.PRE_ACTIVE and post == ST.ACTIVE
    if op == "REVOKE":
        if post == ST.COMPROMISED:
            return code in COMPROMISE
        if post == ST.DEACTIVATED:
            return pre == ST.ACTIVE     # the statement does not say which codes deactivate
    return False


def masks_of(bit, relevant, others):
    out = []
    if relevant and bit is not None:
        out.append(bit)
    if others:
        out.extend(m for m in M if m is not bit)
    return out


def step(op, kind):
    version = P.MIN_VERSION.get(op, (1, 2))
    handler_op = getattr(OP, op)
    gate = GATE.get(op)
    bit = gate[1] if gate else (M.DERIVE_KEY if op == "DERIVE_KEY" else None)

    def h(si: int, relevant: bool, others: bool, ci: int, placeholder: bool) -> bool:
        """
        post: _
        """
        if not (0 <= si < len(STATES) and 0 <= ci < len(CODES)):
            return True
        if op != "REVOKE" and ci != 0:
            return True
        pre = STATES[si]
        o = mk_obj(kind, uid=1, owner="alice", policy="default", names=["name1"],
                   masks=masks_of(bit, relevant, others), state=pre)
        bystander = mk_obj("SymmetricKey", uid=2, owner="alice", state=ST.ACTIVE, masks=list(M))
        has_state = hasattr(o, "state")
        crypto = P.RecordingCrypto()
        e, s = mk_engine([o, bystander], identity=("alice", None), version=version, crypto=crypto,
                         session_cls=stubs.TxSession)
        code = CODES[ci]
        use_ph = bool(placeholder and op != "DERIVE_KEY")
        with NoTracing():                        # everything below is concrete on this path
            if use_ph:
                e._id_placeholder = "1"
                payload = P.mk(op, None, version=version, code=code)
            else:
                payload = P.mk(op, "1", version=version, code=code)
            b_before = snapshot(bystander)
            o_before = snapshot(o)
        ok = True
        s.watch()
        try:
            e._process_operation(handler_op, payload)
        except Exception:
            ok = False
        reach()
        # the state later requests (and a restarted server) see is the committed one: a reported
        # transition that was never committed would silently revert (monotonicity across requests)
        if ok and s.state() != s.committed:
            return False
        if not ok and s.state_commits:
            return False
        # bystander never changes, never disappears
        if not any(x is bystander for x in s.objs) or snapshot(bystander) != b_before:
            return False
        survived = any(x is o for x in s.objs)
        if not survived:
            # only a successful Destroy removes an object, and never an Active one
            return op == "DESTROY" and ok and not (has_state and pre == ST.ACTIVE)
        if op == "DESTROY" and ok:
            return False                         # reported success but the object is still there
        if has_state:
            post = o.state
            if post not in RANK or RANK[post] < RANK[pre]:
                return False
            if not allowed_step(op if ok else "FAILED", pre, post, CODES[ci]):
                return False
            if not ok and post != pre:
                return False                     # a failed operation changes nothing
            if op == "ACTIVATE" and ok and not (pre == ST.PRE_ACTIVE and post == ST.ACTIVE):
                return False
        # everything except the state is untouched by these handlers
        if op not in ("DELETE_ATTRIBUTE", "MODIFY_ATTRIBUTE", "SET_ATTRIBUTE"):   # those are C15's subject
            after = snapshot(o)
            after.pop("state", None)
            o_before.pop("state", None)
            if after != o_before:
                return False
        # the gate: the crypto backend is reached only for an Active object of the right kind
        # whose mask carries the matching bit
        if gate:
            need_kind, need_bit = gate
            permitted = (has_state and pre == ST.ACTIVE and (need_kind is None or kind == need_kind) and relevant)
            if crypto.calls and not permitted:
                return False
            if ok and not permitted:
                return False
        elif op == "DERIVE_KEY":
            if (crypto.calls or ok) and not relevant:
                return False
        else:
            if crypto.calls:
                return False
        return True
    return h


def wrap_step():
    """Get with a wrapping key: the wrapping key must be an Active symmetric key with WRAP_KEY."""
    def h(si: int, relevant: bool, others: bool, wkind: int) -> bool:
        """
        post: _
        """
        kinds = ["SymmetricKey", "PublicKey", "SecretData"]
        if not (0 <= si < len(STATES) and 0 <= wkind < len(kinds)):
            return True
        pre = STATES[si]
        target = mk_obj("SymmetricKey", uid=1, owner="alice", state=ST.ACTIVE, masks=[])
        wk = mk_obj(kinds[wkind], uid=2, owner="alice", state=pre, masks=masks_of(M.WRAP_KEY, relevant, others))
        crypto = P.RecordingCrypto()
        e, s = mk_engine([target, wk], identity=("alice", None), crypto=crypto)
        before = (snapshot(target), snapshot(wk))
        ok = True
        try:
            e._process_operation(OP.GET, P.mk("GET", "1", wrap_uid="2"))
        except Exception:
            ok = False
        reach()
        permitted = pre == ST.ACTIVE and kinds[wkind] == "SymmetricKey" and relevant
        if (crypto.calls or ok) and not permitted:
            return False
        return (snapshot(target), snapshot(wk)) == before
    return h


def derive_two(kind2):
    """DeriveKey naming two objects (the second supplies the derivation data when the request carries
    none): *every* object used must carry the Derive Key bit."""
    def h(rel1: bool, rel2: bool, others: bool, has_data: bool) -> bool:
        """
        post: _
        """
        from kmip.core import attributes as cattrs
        a = mk_obj("SymmetricKey", uid=1, owner="alice", state=ST.ACTIVE, masks=masks_of(M.DERIVE_KEY, rel1, others))
        b = mk_obj(kind2, uid=2, owner="alice", state=ST.ACTIVE, masks=masks_of(M.DERIVE_KEY, rel2, others))
        crypto = P.RecordingCrypto()
        e, s = mk_engine([a, b], identity=("alice", None), crypto=crypto)
        dp = cattrs.DerivationParameters(cryptographic_parameters=P.cparams(),
                                         derivation_data=b"\xf0\xf1" if has_data else None, salt=b"\x00\x01")
        ok = True
        try:
            e._process_operation(OP.DERIVE_KEY, P.mk("DERIVE_KEY", None, uids=["1", "2"], dparams=dp))
        except Exception:
            ok = False
        reach()
        if (crypto.calls or ok) and not (rel1 and rel2):
            return False
        return True
    return h


STATE_OPS = ["ACTIVATE", "REVOKE", "DESTROY"]
CRYPTO_OPS = ["ENCRYPT", "DECRYPT", "SIGN", "SIGNATURE_VERIFY", "MAC", "DERIVE_KEY"]
FRAME_OPS = ["GET", "GET_ATTRIBUTES", "GET_ATTRIBUTE_LIST", "DELETE_ATTRIBUTE", "MODIFY_ATTRIBUTE", "SET_ATTRIBUTE"]


def conditions(tier):
    thorough = tier == "thorough"
    out = []
    kinds_state = stubs.KINDS if thorough else ["SymmetricKey", "PrivateKey", "X509Certificate", "OpaqueObject"]
    for op in STATE_OPS:
        for k in kinds_state:
            out.append(Cond("step-%s-%s" % (op, k), "step", dict(op=op, kind=k),
                            bounds="stored %s in any of the 4 storable states; %s; mask bits, addressing route "
                                   "symbolic%s" % (k, op, "; revocation code any member" if op == "REVOKE" else ""),
                            timeout=400, part="transition"))
    for op in CRYPTO_OPS:
        need = (GATE.get(op) or (None, None))[0]
        kinds = stubs.KINDS if thorough else sorted({need or "SymmetricKey", "SymmetricKey", "SecretData"})
        for k in kinds:
            out.append(Cond("gate-%s-%s" % (op, k), "step", dict(op=op, kind=k),
                            bounds="stored %s in any of the 4 storable states; matching mask bit and the other "
                                   "bits symbolic; %s" % (k, op), timeout=400, part="gate"))
    for k2 in ("SecretData", "SymmetricKey"):
        out.append(Cond("gate-DERIVE_KEY-two-objects-%s" % k2, "derive_two", dict(kind2=k2),
                        bounds="DeriveKey naming a symmetric key and a %s; Derive Key bit of each and the other bits symbolic; "
                               "derivation data in the request or taken from the second object" % k2, timeout=300, part="gate"))
    out.append(Cond("gate-GET-wrappingkey", "wrap_step", {},
                    bounds="wrapping key of kind SymmetricKey/PublicKey/SecretData in any state, WRAP_KEY bit and other "
                           "bits symbolic", timeout=400, part="gate"))
    for op in FRAME_OPS:
        for k in (stubs.KINDS if thorough else ["SymmetricKey"]):
            out.append(Cond("frame-%s-%s" % (op, k), "step", dict(op=op, kind=k),
                            bounds="%s on a stored %s in any state does not write the state" % (op, k),
                            timeout=400, part="frame"))
    return out
